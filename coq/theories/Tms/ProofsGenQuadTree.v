(** * Source tie for pointindex.IsQuadTree: the function REGENERATED from /repo's pointindex/pointindex.go
      (gen/QuadTreeGen.v, translator/quadtree.go) is the model's [isQuadTree] (Tms/Model.v).

    Regenerated statement by statement: the declarations, the range loop with its state (previousTMID, previousTM),
    the lookup of the tile matrix, every check with its operands, operators and order (among them, since the repair
    of F22, `previousTM == nil && tmID != 0`: the first tile matrix must be tile matrix 0), every return with the number
    of its error (= the index of its message among the distinct messages of the function, in source order), the nil
    test of previousTM, every pointer dereference, the two assignments at the end of the body.

    Kept as functions of the model / of Tms/GoTms.v after the translator has checked the shape of the call in the AST
    (TRUSTED, the same list is at the top of gen/QuadTreeGen.v):
    - maps.Keys(t.TileMatrices) + slices.Sort + range + t.TileMatrices[k]  =  the entries of [sorted_matrices t];
    - strconv.Atoi followed at once by `if err != nil { return err }`       =  [go_atoi] ([parse_int], error number 10);
    - mathhelp.FBetweenInc(a / b, lo, hi) on float64                         =  [fbetween_quo] (binary64 [f64]; it is
      [ratio_ok] with the literals as parameters, lemma [fbetween_quo_ratio_ok]);
    - != on [2]float64 = negb [point_feqb]; != on CornerOfOrigin = negb [corner_eqb]; len of a slice = [go_len];
    - struct fields = the projections of [tileMatrix]; int / uint arithmetic wraps at 64 bits; nil dereference panics.

    No hypothesis on the set is needed.  The model compares [k =? pk + 1] over Z, the code computes previousTMID + 1 in
    64 bits: they agree because a key that reaches this check equals what strconv.Atoi read from the id (so it is a Go
    int, and so is the previous one) and because the keys are visited in increasing order ([succ_wrap]). *)
From Coq Require Import ZArith QArith String Ascii List Bool Lia Sorted.
From Texel Require Import Tms.Json Tms.Model Tms.GoTms Tms.ProofsC14.
From Texel.Gen Require Import ConstsGen TmsData QuadTreeGen.
Import ListNotations.
Open Scope Z_scope.

Definition is_int (z : Z) : Prop := - 2 ^ 63 <= z < 2 ^ 63.

(** ** The trusted helpers against the model's *)
(** stated with the literals 1.99 / 2.01 themselves: [ratio_ok] follows the regenerated [gen_quadtree_ratio_lo] / [_hi]
    (pinned by C14_source_shape), so another tolerance in the source breaks this lemma too *)
Lemma fbetween_quo_ratio_ok : forall a b,
  fbetween_quo a b (Dec 199 (-2)) (Dec 201 (-2)) = ratio_ok a b.
Proof. intros a b. reflexivity. Qed.

Lemma go_len_vmw : forall m, negb (go_len (tm_vmw m) =? 0) = vmw_nonempty m.
Proof.
  intros m. unfold go_len, vmw_nonempty. destruct (tm_vmw m) as [[|v l]|]; reflexivity.
Qed.

Lemma succ_wrap : forall k pk, is_int k -> is_int pk -> pk <= k -> (k =? int_add pk 1) = (k =? pk + 1).
Proof.
  intros k pk Hk Hpk Hle. unfold is_int in *. unfold int_add, wrap_int.
  change (2 ^ 63) with 9223372036854775808 in *. change (2 ^ 64) with 18446744073709551616.
  destruct (Z.eq_dec pk 9223372036854775807) as [E|E].
  - subst pk. change ((9223372036854775807 + 1 + 9223372036854775808) mod 18446744073709551616) with 0.
    destruct (Z.eqb_spec k (0 - 9223372036854775808)) as [A|A]; destruct (Z.eqb_spec k (9223372036854775807 + 1)) as [B|B];
      try reflexivity; lia.
  - rewrite Z.mod_small by lia. replace (pk + 1 + 9223372036854775808 - 9223372036854775808) with (pk + 1) by lia.
    reflexivity.
Qed.

(** ** What strconv.Atoi accepts is a Go int *)
Lemma digit_of_nonneg : forall a d, digit_of a = Some d -> 0 <= d.
Proof.
  intros a d H. unfold digit_of in H.
  destruct ((48 <=? Z.of_N (N_of_ascii a)) && (Z.of_N (N_of_ascii a) <=? 57)) eqn:E; [|discriminate].
  inversion H; subst. apply andb_prop in E. destruct E as [E1 _]. apply Z.leb_le in E1. lia.
Qed.

Lemma digits_val_nonneg : forall s acc v, 0 <= acc -> digits_val s acc = Some v -> 0 <= v.
Proof.
  induction s as [|a r IH]; intros acc v Hacc H; cbn [digits_val] in H.
  - inversion H; subst; exact Hacc.
  - destruct (digit_of a) as [d|] eqn:ED; [|discriminate].
    apply (IH (acc * 10 + d) v); [|exact H]. apply digit_of_nonneg in ED. lia.
Qed.

Lemma parse_int_is_int : forall s z, parse_int s = Some z -> is_int z.
Proof.
  intros s z H. unfold parse_int in H. unfold is_int.
  destruct s as [|a r]; [discriminate|].
  destruct (N.eqb (N_of_ascii a) 45).
  - destruct r as [|b r']; [discriminate|].
    destruct (digits_val (String b r') 0) as [v|] eqn:ED; [|discriminate].
    apply digits_val_nonneg in ED; [|lia].
    destruct (Z.leb_spec v (2 ^ 63)); [|discriminate]. inversion H; subst. lia.
  - destruct (N.eqb (N_of_ascii a) 43).
    + destruct r as [|b r']; [discriminate|].
      destruct (digits_val (String b r') 0) as [v|] eqn:ED; [|discriminate].
      apply digits_val_nonneg in ED; [|lia].
      destruct (Z.ltb_spec v (2 ^ 63)); [|discriminate]. inversion H; subst. lia.
    + destruct (digits_val (String a r) 0) as [v|] eqn:ED; [|discriminate].
      apply digits_val_nonneg in ED; [|lia].
      destruct (Z.ltb_spec v (2 ^ 63)); [|discriminate]. inversion H; subst. lia.
Qed.

Lemma check_single_int : forall k m, check_single k m = None -> is_int k.
Proof.
  intros k m H. unfold check_single in H.
  destruct (negb (tm_matrixHeight m =? tm_matrixWidth m)); [discriminate|].
  destruct (negb (tm_tileHeight m =? tm_tileWidth m)); [discriminate|].
  destruct (parse_int (tm_id m)) as [n|] eqn:EP; [|discriminate].
  destruct (Z.eqb_spec n k) as [E|E]; [|discriminate]. subst n. exact (parse_int_is_int _ _ EP).
Qed.

(** ** One run of the loop body *)
Definition state_rel (prev : option (Z * tileMatrix)) (st : Z * option tileMatrix) : Prop :=
  match prev with
  | None => snd st = None
  | Some (pk, pm) => st = (pk, Some pm)
  end.

Definition model_body (prev : option (Z * tileMatrix)) (k : Z) (m : tileMatrix) : qres (qbody (Z * option tileMatrix) goerr) :=
  match check_single k m with
  | Some c => QOk (QRet (Some c))
  | None =>
      match prev with
      | None => if negb (k =? 0) then QOk (QRet (Some 4%nat)) else QOk (QCont (k, Some m))
      | Some (pk, pm) =>
          match check_pair pk pm k m with
          | Accept => QOk (QCont (k, Some m))
          | Reject c => QOk (QRet (Some c))
          | VPanic => QNilDeref
          end
      end
  end.

Lemma body_tie : forall t k m prev st,
  state_rel prev st ->
  (forall pk pm, prev = Some (pk, pm) -> is_int pk /\ pk <= k) ->
  gen_isQuadTree_loop1 t (k, m) st = model_body prev k m.
Proof.
  intros t k m prev [pid ptm] HR Hprev.
  unfold gen_isQuadTree_loop1, model_body, check_single. cbn [fst snd].
  destruct (negb (tm_matrixHeight m =? tm_matrixWidth m)); [reflexivity|].
  destruct (negb (tm_tileHeight m =? tm_tileWidth m)); [reflexivity|].
  unfold go_atoi. destruct (parse_int (tm_id m)) as [n|] eqn:EP; cbn [is_nonnil]; [|reflexivity].
  destruct (Z.eqb_spec n k) as [En|En]; cbn [negb]; [|reflexivity].
  assert (Hk : is_int k) by (subst n; exact (parse_int_is_int _ _ EP)).
  rewrite go_len_vmw. destruct (vmw_nonempty m); [reflexivity|].
  destruct prev as [[pk pm]|]; unfold state_rel in HR.
  - inversion HR; subst pid ptm. clear HR.
    destruct (Hprev pk pm eq_refl) as [Hpk Hle].
    cbn [is_nil is_nonnil andb]. unfold check_pair. rewrite (succ_wrap k pk Hk Hpk Hle).
    destruct (negb (k =? pk + 1)); [reflexivity|].
    destruct (tm_origin m) as [o|]; cbn [deref qbind]; [|reflexivity].
    destruct (tm_origin pm) as [po|]; cbn [deref qbind]; [|reflexivity].
    destruct (negb (point_feqb o po)); [reflexivity|].
    destruct (negb (corner_eqb (tm_corner m) (tm_corner pm))); [reflexivity|].
    destruct (negb (tm_tileHeight m =? tm_tileHeight pm)); [reflexivity|].
    unfold uint_mul.
    destruct (negb (tm_matrixHeight m =? (2 * tm_matrixHeight pm) mod two64)); [reflexivity|].
    rewrite fbetween_quo_ratio_ok.
    destruct (negb (ratio_ok (tm_cellSize pm) (tm_cellSize m))); reflexivity.
  - cbn [snd] in HR. subst ptm. cbn [is_nil is_nonnil andb]. destruct (negb (k =? 0)); reflexivity.
Qed.

(** ** The loop *)
Definition finish (out : qloop (Z * option tileMatrix) goerr) : qres goerr :=
  match out with
  | QReturn r => QOk r
  | QNext _ => QOk None
  end.

Lemma loop_tie : forall t l prev st,
  StronglySorted key_le l ->
  state_rel prev st ->
  (forall pk pm, prev = Some (pk, pm) -> is_int pk /\ forall k m, In (k, m) l -> pk <= k) ->
  verdict_of (qbind (qrange (gen_isQuadTree_loop1 t) l st) finish) = iqt_loop prev l.
Proof.
  intros t l. induction l as [|[k m] r IH]; intros prev st HS HR HP; [reflexivity|].
  apply StronglySorted_inv in HS. destruct HS as [HSr HSk].
  assert (Hnext : check_single k m = None ->
                  forall pk pm, Some (k, m) = Some (pk, pm) -> is_int pk /\ forall k' m', In (k', m') r -> pk <= k').
  { intros HC pk pm E. inversion E; subst pk pm. split; [exact (check_single_int k m HC)|].
    intros k' m' HI. rewrite Forall_forall in HSk. apply (HSk (k', m') HI). }
  cbn [qrange iqt_loop].
  rewrite (body_tie t k m prev st HR).
  2:{ intros pk pm E. destruct (HP pk pm E) as [A B]. split; [exact A|]. apply (B k m). left; reflexivity. }
  unfold model_body. destruct (check_single k m) as [c|] eqn:EC; [reflexivity|].
  destruct prev as [[pk pm]|].
  - destruct (check_pair pk pm k m) as [|c|]; try reflexivity.
    apply (IH (Some (k, m)) (k, Some m) HSr); [reflexivity|exact (Hnext eq_refl)].
  - destruct (negb (k =? 0)); [reflexivity|].
    apply (IH (Some (k, m)) (k, Some m) HSr); [reflexivity|exact (Hnext eq_refl)].
Qed.

Lemma gen_isQuadTree_go_finish : forall t,
  gen_isQuadTree_go t = qbind (qrange (gen_isQuadTree_loop1 t) (sorted_matrices t) (0, None)) finish.
Proof.
  intros t. unfold gen_isQuadTree_go.
  destruct (qrange (gen_isQuadTree_loop1 t) (sorted_matrices t) (0, None)) as [[[a b]|r]|]; reflexivity.
Qed.

Theorem gen_isQuadTree_eq : forall t, gen_isQuadTree t = isQuadTree t.
Proof.
  intros t. unfold gen_isQuadTree, isQuadTree. rewrite gen_isQuadTree_go_finish.
  apply loop_tie.
  - unfold sorted_matrices. apply sort_sorted.
  - reflexivity.
  - intros pk pm E. discriminate.
Qed.

(** the numbering of the errors is the one the model documents ([Reject n]: index into [gen_quadtree_checks]; the
    error of strconv.Atoi comes after them) *)
Lemma gen_isQuadTree_errors_eq : gen_isQuadTree_errors = gen_quadtree_checks /\ List.length gen_isQuadTree_errors = atoi_error.
Proof. split; reflexivity. Qed.
