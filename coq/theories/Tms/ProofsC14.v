(** * C14 — proofs about [isQuadTree] / [validate] of Tms/Model.v *)
From Coq Require Import ZArith QArith Qround String Ascii List Bool Lia Permutation.
From Texel Require Import Tms.Json Tms.Model.
From Texel.Gen Require Import ConstsGen TmsData.
Import ListNotations.
Open Scope Z_scope.

(** ** The conditions, as propositions *)
Definition single_ok (k : Z) (m : tileMatrix) : Prop :=
  tm_matrixHeight m = tm_matrixWidth m /\
  tm_tileHeight m = tm_tileWidth m /\
  parse_int (tm_id m) = Some k /\
  vmw_nonempty m = false.

Definition pair_ok (pk : Z) (pm : tileMatrix) (k : Z) (m : tileMatrix) : Prop :=
  k = pk + 1 /\
  (exists o po, tm_origin m = Some o /\ tm_origin pm = Some po /\ point_feqb o po = true) /\
  tm_corner m = tm_corner pm /\
  tm_tileHeight m = tm_tileHeight pm /\
  tm_matrixHeight m = (2 * tm_matrixHeight pm) mod two64 /\
  ratio_ok (tm_cellSize pm) (tm_cellSize m) = true.

Fixpoint chain_ok (prev : option (Z * tileMatrix)) (l : list (Z * tileMatrix)) : Prop :=
  match l with
  | [] => True
  | (k, m) :: r =>
      single_ok k m /\
      match prev with None => True | Some (pk, pm) => pair_ok pk pm k m end /\
      chain_ok (Some (k, m)) r
  end.

Lemma corner_eqb_eq : forall a b, corner_eqb a b = true <-> a = b.
Proof. intros [] []; simpl; split; intro H; try reflexivity; try discriminate. Qed.

Lemma check_single_none : forall k m, check_single k m = None <-> single_ok k m.
Proof.
  intros k m. unfold check_single, single_ok.
  destruct (Z.eqb_spec (tm_matrixHeight m) (tm_matrixWidth m)) as [E1|E1]; simpl.
  2:{ split; [discriminate| intros [H _]; contradiction]. }
  destruct (Z.eqb_spec (tm_tileHeight m) (tm_tileWidth m)) as [E2|E2]; simpl.
  2:{ split; [discriminate| intros [_ [H _]]; contradiction]. }
  destruct (parse_int (tm_id m)) as [n|] eqn:EP.
  2:{ split; [discriminate| intros [_ [_ [H _]]]; discriminate]. }
  destruct (Z.eqb_spec n k) as [E3|E3]; simpl.
  2:{ split; [discriminate| intros [_ [_ [H _]]]; inversion H; contradiction]. }
  subst n. destruct (vmw_nonempty m) eqn:EV.
  - split; [discriminate| intros [_ [_ [_ H]]]; discriminate].
  - split; intros _; auto.
Qed.

Lemma check_single_some : forall k m c, check_single k m = Some c -> ~ single_ok k m.
Proof. intros k m c H S. apply check_single_none in S. congruence. Qed.

Lemma check_pair_accept : forall pk pm k m, check_pair pk pm k m = Accept <-> pair_ok pk pm k m.
Proof.
  intros pk pm k m. unfold check_pair, pair_ok.
  destruct (Z.eqb_spec k (pk + 1)) as [E1|E1]; cbn [negb].
  2:{ split; [discriminate| intros [H _]; contradiction]. }
  destruct (tm_origin m) as [o|] eqn:EO.
  2:{ split; [discriminate| intros [_ [[o [po [H _]]] _]]; discriminate]. }
  destruct (tm_origin pm) as [po|] eqn:EPO.
  2:{ split; [discriminate| intros [_ [[o' [po [_ [H _]]]] _]]; discriminate]. }
  destruct (point_feqb o po) eqn:EF; cbn [negb].
  2:{ split; [discriminate| intros [_ [[o' [po' [H1 [H2 H3]]]] _]]]. inversion H1; inversion H2; subst. congruence. }
  destruct (corner_eqb (tm_corner m) (tm_corner pm)) eqn:EC; cbn [negb].
  2:{ split; [discriminate| intros [_ [_ [H _]]]]. apply corner_eqb_eq in H. congruence. }
  apply corner_eqb_eq in EC.
  destruct (Z.eqb_spec (tm_tileHeight m) (tm_tileHeight pm)) as [E2|E2]; cbn [negb].
  2:{ split; [discriminate| intros [_ [_ [_ [H _]]]]; contradiction]. }
  destruct (Z.eqb_spec (tm_matrixHeight m) ((2 * tm_matrixHeight pm) mod two64)) as [E3|E3]; cbn [negb].
  2:{ split; [discriminate| intros [_ [_ [_ [_ [H _]]]]]; contradiction]. }
  destruct (ratio_ok (tm_cellSize pm) (tm_cellSize m)) eqn:ER; cbn [negb].
  2:{ split; [discriminate| intros [_ [_ [_ [_ [_ H]]]]]; discriminate]. }
  split; intros _; auto.
  repeat split; auto. exists o, po; auto.
Qed.

Lemma iqt_loop_accept : forall l prev, iqt_loop prev l = Accept <-> chain_ok prev l.
Proof.
  induction l as [|[k m] r IH]; intros prev; simpl.
  - split; auto.
  - destruct (check_single k m) as [c|] eqn:ES.
    + split; [discriminate|]. intros [S _]. exfalso. eapply check_single_some; eauto.
    + apply check_single_none in ES. destruct prev as [[pk pm]|].
      * destruct (check_pair pk pm k m) eqn:EP.
        -- apply check_pair_accept in EP. rewrite IH. tauto.
        -- split; [discriminate|]. intros [_ [P _]]. apply check_pair_accept in P. congruence.
        -- split; [discriminate|]. intros [_ [P _]]. apply check_pair_accept in P. congruence.
      * rewrite IH. tauto.
Qed.

(** ** Soundness for every record, every level *)
Lemma chain_ok_all_single : forall l prev, chain_ok prev l -> forall k m, In (k, m) l -> single_ok k m.
Proof.
  induction l as [|[k0 m0] r IH]; intros prev H k m HI; simpl in *.
  - contradiction.
  - destruct H as [S [_ C]]. destruct HI as [E|HI].
    + inversion E; subst; auto.
    + eapply IH; eauto.
Qed.

Lemma chain_ok_adjacent : forall l prev, chain_ok prev l ->
  forall i k1 m1 k2 m2, nth_error l i = Some (k1, m1) -> nth_error l (S i) = Some (k2, m2) -> pair_ok k1 m1 k2 m2.
Proof.
  induction l as [|[k0 m0] r IH]; intros prev H i k1 m1 k2 m2 H1 H2.
  - destruct i; discriminate.
  - simpl in H. destruct H as [_ [_ C]]. destruct i as [|i]; simpl in H1, H2.
    + inversion H1; subst. destruct r as [|[k' m'] r']; [discriminate|]. simpl in H2. inversion H2; subst.
      simpl in C. tauto.
    + eapply IH; eauto.
Qed.

Theorem isQuadTree_sound_lemma : forall t, isQuadTree t = Accept ->
  let l := sorted_matrices t in
  (forall k m, In (k, m) l -> single_ok k m) /\
  (forall i k1 m1 k2 m2, nth_error l i = Some (k1, m1) -> nth_error l (S i) = Some (k2, m2) -> pair_ok k1 m1 k2 m2).
Proof.
  intros t H l. unfold isQuadTree in H. apply iqt_loop_accept in H. split.
  - eapply chain_ok_all_single; eauto.
  - eapply chain_ok_adjacent; eauto.
Qed.

(** the sorted list is a permutation of the map *)
Lemma insert_by_key_perm : forall e l, Permutation (e :: l) (insert_by_key e l).
Proof.
  intros e l. induction l as [|e' r IH]; simpl; auto.
  destruct (fst e <? fst e'); auto.
  eapply perm_trans; [apply perm_swap|]. constructor. exact IH.
Qed.

Lemma sorted_perm : forall l, Permutation l (fold_right insert_by_key [] l).
Proof.
  induction l as [|e r IH]; simpl; auto.
  eapply perm_trans; [|apply insert_by_key_perm]. constructor. exact IH.
Qed.

Lemma in_sorted_iff : forall t e, In e (sorted_matrices t) <-> In e (t_matrices t).
Proof.
  intros t e. unfold sorted_matrices. split; intro H.
  - eapply Permutation_in; [apply Permutation_sym, sorted_perm|exact H].
  - eapply Permutation_in; [apply sorted_perm|exact H].
Qed.

(** ** No panic when every matrix has a point of origin *)
Definition origins_present (l : list (Z * tileMatrix)) : Prop := forall k m, In (k, m) l -> tm_origin m <> None.

Lemma check_pair_no_panic : forall pk pm k m, tm_origin pm <> None -> tm_origin m <> None -> check_pair pk pm k m <> VPanic.
Proof.
  intros pk pm k m H1 H2. unfold check_pair.
  destruct (negb (k =? pk + 1)); [discriminate|].
  destruct (tm_origin m); [|contradiction]. destruct (tm_origin pm); [|contradiction].
  destruct (negb (point_feqb p p0)); [discriminate|].
  destruct (negb (corner_eqb (tm_corner m) (tm_corner pm))); [discriminate|].
  destruct (negb (tm_tileHeight m =? tm_tileHeight pm)); [discriminate|].
  destruct (negb (tm_matrixHeight m =? (2 * tm_matrixHeight pm) mod two64)); [discriminate|].
  destruct (negb (ratio_ok (tm_cellSize pm) (tm_cellSize m))); discriminate.
Qed.

Lemma iqt_loop_no_panic : forall l prev,
  origins_present l -> match prev with Some (_, pm) => tm_origin pm <> None | None => True end ->
  iqt_loop prev l <> VPanic.
Proof.
  induction l as [|[k m] r IH]; intros prev HO HP; simpl.
  - discriminate.
  - assert (Hm : tm_origin m <> None) by (apply (HO k m); left; reflexivity).
    assert (Hr : origins_present r) by (intros k' m' HI; apply (HO k' m'); right; exact HI).
    destruct (check_single k m); [discriminate|].
    destruct prev as [[pk pm]|].
    + destruct (check_pair pk pm k m) eqn:EP.
      * apply IH; [exact Hr|exact Hm].
      * discriminate.
      * exfalso. eapply check_pair_no_panic; eauto.
    + apply IH; [exact Hr|exact Hm].
Qed.

Lemma isQuadTree_no_panic : forall t, origins_present (t_matrices t) -> isQuadTree t <> VPanic.
Proof.
  intros t H. unfold isQuadTree. apply iqt_loop_no_panic; auto.
  intros k m HI. apply (H k m). apply in_sorted_iff. exact HI.
Qed.

(** ** Perturbations *)
Definition upd (k : Z) (f : tileMatrix -> tileMatrix) (l : list (Z * tileMatrix)) : list (Z * tileMatrix) :=
  map (fun e => if fst e =? k then (fst e, f (snd e)) else e) l.

Definition set_matrices (t : tms) (l : list (Z * tileMatrix)) : tms :=
  MkTMS (t_id t) (t_title t) (t_description t) (t_keywords t) (t_uri t) (t_orderedAxes t) (t_wkss t) (t_bbox t) (t_crs t) l.

(** replace the matrix with key k by [f] of it / delete it *)
Definition update_tm (t : tms) (k : Z) (f : tileMatrix -> tileMatrix) : tms := set_matrices t (upd k f (t_matrices t)).
Definition delete_tm (t : tms) (k : Z) : tms := set_matrices t (filter (fun e => negb (fst e =? k)) (t_matrices t)).

Definition with_matrixWidth (v : Z) (m : tileMatrix) : tileMatrix :=
  MkTM (tm_id m) (tm_title m) (tm_description m) (tm_keywords m) (tm_scaleDenominator m) (tm_cellSize m) (tm_corner m) (tm_origin m) (tm_tileWidth m) (tm_tileHeight m) v (tm_matrixHeight m) (tm_vmw m).
Definition with_matrixHeight (v : Z) (m : tileMatrix) : tileMatrix :=
  MkTM (tm_id m) (tm_title m) (tm_description m) (tm_keywords m) (tm_scaleDenominator m) (tm_cellSize m) (tm_corner m) (tm_origin m) (tm_tileWidth m) (tm_tileHeight m) (tm_matrixWidth m) v (tm_vmw m).
Definition with_tileWidth (v : Z) (m : tileMatrix) : tileMatrix :=
  MkTM (tm_id m) (tm_title m) (tm_description m) (tm_keywords m) (tm_scaleDenominator m) (tm_cellSize m) (tm_corner m) (tm_origin m) v (tm_tileHeight m) (tm_matrixWidth m) (tm_matrixHeight m) (tm_vmw m).
Definition with_tileHeight (v : Z) (m : tileMatrix) : tileMatrix :=
  MkTM (tm_id m) (tm_title m) (tm_description m) (tm_keywords m) (tm_scaleDenominator m) (tm_cellSize m) (tm_corner m) (tm_origin m) (tm_tileWidth m) v (tm_matrixWidth m) (tm_matrixHeight m) (tm_vmw m).
Definition with_origin (o : dec * dec) (m : tileMatrix) : tileMatrix :=
  MkTM (tm_id m) (tm_title m) (tm_description m) (tm_keywords m) (tm_scaleDenominator m) (tm_cellSize m) (tm_corner m) (Some o) (tm_tileWidth m) (tm_tileHeight m) (tm_matrixWidth m) (tm_matrixHeight m) (tm_vmw m).
Definition with_corner (c : corner) (m : tileMatrix) : tileMatrix :=
  MkTM (tm_id m) (tm_title m) (tm_description m) (tm_keywords m) (tm_scaleDenominator m) (tm_cellSize m) c (tm_origin m) (tm_tileWidth m) (tm_tileHeight m) (tm_matrixWidth m) (tm_matrixHeight m) (tm_vmw m).
Definition with_cellSize (d : dec) (m : tileMatrix) : tileMatrix :=
  MkTM (tm_id m) (tm_title m) (tm_description m) (tm_keywords m) (tm_scaleDenominator m) d (tm_corner m) (tm_origin m) (tm_tileWidth m) (tm_tileHeight m) (tm_matrixWidth m) (tm_matrixHeight m) (tm_vmw m).
Definition with_vmw (v : list vmw) (m : tileMatrix) : tileMatrix :=
  MkTM (tm_id m) (tm_title m) (tm_description m) (tm_keywords m) (tm_scaleDenominator m) (tm_cellSize m) (tm_corner m) (tm_origin m) (tm_tileWidth m) (tm_tileHeight m) (tm_matrixWidth m) (tm_matrixHeight m) (Some v).

(** sorting commutes with key-preserving updates and key-based deletion *)
Lemma insert_by_key_upd : forall k f e l,
  insert_by_key (if fst e =? k then (fst e, f (snd e)) else e) (upd k f l) = upd k f (insert_by_key e l).
Proof.
  intros k f e l. induction l as [|e' r IH]; simpl.
  - reflexivity.
  - assert (F : forall x : Z * tileMatrix, fst (if fst x =? k then (fst x, f (snd x)) else x) = fst x)
      by (intros x; destruct (fst x =? k); reflexivity).
    rewrite !F. destruct (fst e <? fst e'); simpl.
    + reflexivity.
    + rewrite <- IH. reflexivity.
Qed.

Lemma sort_upd : forall k f l, fold_right insert_by_key [] (upd k f l) = upd k f (fold_right insert_by_key [] l).
Proof.
  intros k f l. induction l as [|e r IH]; simpl; auto.
  rewrite IH. apply insert_by_key_upd.
Qed.

Lemma sorted_update : forall t k f, sorted_matrices (update_tm t k f) = upd k f (sorted_matrices t).
Proof. intros. unfold sorted_matrices, update_tm, set_matrices; simpl. apply sort_upd. Qed.

Definition keep (k : Z) (e : Z * tileMatrix) : bool := negb (fst e =? k).

Definition key_le (a b : Z * tileMatrix) : Prop := fst a <= fst b.

Lemma insert_by_key_lt_all : forall e l, (forall x, In x l -> fst e < fst x) -> insert_by_key e l = e :: l.
Proof.
  intros e [|x r] H; simpl; auto.
  assert (fst e < fst x) by (apply H; left; reflexivity).
  destruct (Z.ltb_spec (fst e) (fst x)); [reflexivity|lia].
Qed.

Lemma insert_by_key_sorted : forall e l, StronglySorted key_le l -> StronglySorted key_le (insert_by_key e l).
Proof.
  intros e l H. induction H as [|x r HS IH HF]; simpl.
  - constructor; constructor.
  - destruct (Z.ltb_spec (fst e) (fst x)) as [L|L].
    + constructor.
      * constructor; auto.
      * constructor; [unfold key_le; lia|].
        rewrite Forall_forall in *. intros y Hy. specialize (HF y Hy). unfold key_le in *. lia.
    + constructor; auto.
      rewrite Forall_forall in *. intros y Hy.
      eapply Permutation_in in Hy; [|apply Permutation_sym, insert_by_key_perm].
      destruct Hy as [E|Hy]; [subst; unfold key_le; lia|auto].
Qed.

Lemma sort_sorted : forall l, StronglySorted key_le (fold_right insert_by_key [] l).
Proof. induction l; simpl; [constructor|apply insert_by_key_sorted; auto]. Qed.

Lemma insert_by_key_filter : forall k e l, StronglySorted key_le l ->
  filter (keep k) (insert_by_key e l) = if keep k e then insert_by_key e (filter (keep k) l) else filter (keep k) l.
Proof.
  intros k e l H. induction H as [|x r HS IH HF]; simpl.
  - destruct (keep k e); reflexivity.
  - destruct (Z.ltb_spec (fst e) (fst x)) as [L|L]; simpl.
    + destruct (keep k e) eqn:KE; destruct (keep k x) eqn:KX; simpl.
      * destruct (Z.ltb_spec (fst e) (fst x)); [reflexivity|lia].
      * symmetry. apply insert_by_key_lt_all. intros y Hy. apply filter_In in Hy. destruct Hy as [Hy _].
        rewrite Forall_forall in HF. specialize (HF y Hy). unfold key_le in HF. lia.
      * reflexivity.
      * reflexivity.
    + rewrite IH. destruct (keep k e) eqn:KE; destruct (keep k x) eqn:KX; simpl.
      * destruct (Z.ltb_spec (fst e) (fst x)); [lia|reflexivity].
      * reflexivity.
      * reflexivity.
      * reflexivity.
Qed.

Lemma sort_filter : forall k l,
  fold_right insert_by_key [] (filter (keep k) l) = filter (keep k) (fold_right insert_by_key [] l).
Proof.
  intros k l. induction l as [|e r IH]; simpl; auto.
  rewrite insert_by_key_filter by apply sort_sorted.
  destruct (keep k e); simpl; rewrite IH; reflexivity.
Qed.

Lemma sorted_delete : forall t k, sorted_matrices (delete_tm t k) = filter (keep k) (sorted_matrices t).
Proof. intros. unfold sorted_matrices, delete_tm, set_matrices; simpl. apply sort_filter. Qed.

(** keys along an accepted chain are consecutive *)
Fixpoint keys_from (k : Z) (l : list (Z * tileMatrix)) : Prop :=
  match l with
  | [] => True
  | (k', _) :: r => k' = k /\ keys_from (k + 1) r
  end.

Lemma chain_keys : forall l pk pm, chain_ok (Some (pk, pm)) l -> keys_from (pk + 1) l.
Proof.
  induction l as [|[k m] r IH]; intros pk pm H; simpl in *; auto.
  destruct H as [_ [[E _] C]]. split; auto. subst k. eapply IH; eauto.
Qed.

Lemma keys_from_in : forall l k k' m, keys_from k l -> In (k', m) l -> k <= k'.
Proof.
  induction l as [|[k0 m0] r IH]; intros k k' m H HI; simpl in *; [contradiction|].
  destruct H as [E H]. destruct HI as [HI|HI].
  - inversion HI; subst; lia.
  - specialize (IH _ _ _ H HI). lia.
Qed.

(** traversal of an accepted prefix *)
Definition lastp (prev : option (Z * tileMatrix)) (l : list (Z * tileMatrix)) : option (Z * tileMatrix) :=
  match rev l with [] => prev | e :: _ => Some e end.

Lemma lastp_cons : forall prev e l, lastp prev (e :: l) = lastp (Some e) l.
Proof.
  intros prev e l. unfold lastp. simpl. destruct (rev l) eqn:ER; simpl; auto.
Qed.

Lemma iqt_loop_prefix : forall l1 prev rest rest',
  chain_ok prev (l1 ++ rest) -> iqt_loop prev (l1 ++ rest') = iqt_loop (lastp prev l1) rest'.
Proof.
  induction l1 as [|[k m] r IH]; intros prev rest rest' H.
  - reflexivity.
  - rewrite lastp_cons. simpl app in *. simpl in H. destruct H as [S [P C]].
    simpl. apply check_single_none in S. rewrite S.
    destruct prev as [[pk pm]|].
    + apply check_pair_accept in P. rewrite P. eapply IH; eauto.
    + eapply IH; eauto.
Qed.

Lemma chain_ok_app : forall l1 prev rest, chain_ok prev (l1 ++ rest) -> chain_ok (lastp prev l1) rest.
Proof.
  induction l1 as [|[k m] r IH]; intros prev rest H.
  - exact H.
  - rewrite lastp_cons. simpl in H. destruct H as [_ [_ C]]. eapply IH; eauto.
Qed.

Lemma chain_ok_prefix_keys : forall l1 prev rest k m k' m',
  chain_ok prev (l1 ++ (k, m) :: rest) -> In (k', m') l1 -> k' < k.
Proof.
  induction l1 as [|[k0 m0] r IH]; intros prev rest k m k' m' H HI; [contradiction|].
  simpl in H. destruct H as [_ [_ C]]. destruct HI as [E|HI].
  - inversion E; subst. apply chain_keys in C.
    assert (In (k, m) (r ++ (k, m) :: rest)) by (apply in_or_app; right; left; reflexivity).
    eapply keys_from_in in C; eauto. lia.
  - eapply IH; eauto.
Qed.

Lemma upd_other : forall k f l, (forall k' m', In (k', m') l -> k' <> k) -> upd k f l = l.
Proof.
  intros k f l H. induction l as [|[k0 m0] r IH]; simpl; auto.
  assert (k0 <> k) by (eapply H; left; reflexivity).
  destruct (Z.eqb_spec k0 k); [contradiction|]. simpl. f_equal. apply IH. intros; eapply H; right; eauto.
Qed.

Lemma filter_keep_other : forall k l, (forall k' m', In (k', m') l -> k' <> k) -> filter (keep k) l = l.
Proof.
  intros k l H. induction l as [|[k0 m0] r IH]; simpl; auto.
  assert (k0 <> k) by (eapply H; left; reflexivity).
  unfold keep at 1. simpl. destruct (Z.eqb_spec k0 k); [contradiction|]. simpl. f_equal. apply IH. intros; eapply H; right; eauto.
Qed.

(** an accepted sorted list splits at any of its members; the other keys differ *)
Lemma accepted_split : forall l k m, chain_ok None l -> In (k, m) l ->
  exists l1 l2, l = l1 ++ (k, m) :: l2 /    (forall k' m', In (k', m') l1 -> k' < k) /\ (forall k' m', In (k', m') l2 -> k < k').
Proof.
  intros l k m H HI. destruct (in_split _ _ HI) as [l1 [l2 E]]. exists l1, l2. subst l. split; [reflexivity|]. split.
  - intros k' m' HI'. eapply chain_ok_prefix_keys; eauto.
  - intros k' m' HI'. apply chain_ok_app in H. simpl in H. destruct H as [_ [_ C]].
    apply chain_keys in C. eapply keys_from_in in C; eauto. lia.
Qed.

Lemma upd_split : forall k f l1 m l2,
  (forall k' m', In (k', m') l1 -> k' < k) -> (forall k' m', In (k', m') l2 -> k < k') ->
  upd k f (l1 ++ (k, m) :: l2) = l1 ++ (k, f m) :: l2.
Proof.
  intros k f l1 m l2 H1 H2. unfold upd. rewrite map_app. simpl. rewrite Z.eqb_refl. simpl.
  fold (upd k f l1). fold (upd k f l2). rewrite !upd_other; auto.
  - intros k' m' HI. specialize (H2 _ _ HI). lia.
  - intros k' m' HI. specialize (H1 _ _ HI). lia.
Qed.

Lemma filter_split : forall k l1 m l2,
  (forall k' m', In (k', m') l1 -> k' < k) -> (forall k' m', In (k', m') l2 -> k < k') ->
  filter (keep k) (l1 ++ (k, m) :: l2) = l1 ++ l2.
Proof.
  intros k l1 m l2 H1 H2. rewrite filter_app. simpl. unfold keep at 2. simpl. rewrite Z.eqb_refl. simpl.
  rewrite !filter_keep_other; auto.
  - intros k' m' HI. specialize (H2 _ _ HI). lia.
  - intros k' m' HI. specialize (H1 _ _ HI). lia.
Qed.

Definition rejected (v : verdict) : Prop := exists n, v = Reject n.

Lemma validate_of_rejected_quad : forall t ids, rejected (isQuadTree t) -> rejected (validate t ids).
Proof. intros t ids [n H]. unfold validate. rewrite H. exists n; reflexivity. Qed.

Lemma validate_accept_quad : forall t ids, validate t ids = Accept -> isQuadTree t = Accept.
Proof. intros t ids H. unfold validate in H. destruct (isQuadTree t); auto; discriminate. Qed.

(** the generic step: an accepted set whose matrix k is replaced by m' is judged at k *)
Lemma quad_update_at : forall t k m f, isQuadTree t = Accept -> In (k, m) (t_matrices t) ->
  exists l1 l2, sorted_matrices t = l1 ++ (k, m) :: l2 /    chain_ok None (l1 ++ (k, m) :: l2) /    isQuadTree (update_tm t k f) = iqt_loop (lastp None l1) ((k, f m) :: l2).
Proof.
  intros t k m f HA HI. unfold isQuadTree in HA. apply iqt_loop_accept in HA.
  apply in_sorted_iff in HI.
  destruct (accepted_split _ _ _ HA HI) as [l1 [l2 [E [H1 H2]]]].
  exists l1, l2. split; [exact E|]. split; [rewrite <- E; exact HA|].
  unfold isQuadTree. rewrite sorted_update, E, upd_split by assumption.
  eapply iqt_loop_prefix. rewrite <- E. exact HA.
Qed.

(** breaking a per-matrix condition *)
Lemma reject_single : forall t k m f, isQuadTree t = Accept -> In (k, m) (t_matrices t) ->
  ~ single_ok k (f m) -> rejected (isQuadTree (update_tm t k f)).
Proof.
  intros t k m f HA HI HS.
  destruct (quad_update_at t k m f HA HI) as [l1 [l2 [_ [_ E]]]]. rewrite E. simpl.
  destruct (check_single k (f m)) as [c|] eqn:EC.
  - exists c; reflexivity.
  - apply check_single_none in EC. contradiction.
Qed.

(** float64 equality of points is an equivalence *)
Lemma fl_eqb_sym : forall a b, fl_eqb a b = fl_eqb b a.
Proof.
  intros [x|s] [y|t]; simpl; auto.
  - destruct (Qeq_bool x y) eqn:E1; destruct (Qeq_bool y x) eqn:E2; auto.
    + apply Qeq_bool_iff in E1. symmetry in E1. apply Qeq_bool_iff in E1. congruence.
    + apply Qeq_bool_iff in E2. symmetry in E2. apply Qeq_bool_iff in E2. congruence.
  - destruct s, t; reflexivity.
Qed.

Lemma fl_eqb_trans : forall a b c, fl_eqb a b = true -> fl_eqb b c = true -> fl_eqb a c = true.
Proof.
  intros [x|s] [y|t] [z|u]; simpl; intros H1 H2; try discriminate.
  - apply Qeq_bool_iff in H1. apply Qeq_bool_iff in H2. apply Qeq_bool_iff. rewrite H1. exact H2.
  - destruct s, t, u; simpl in *; auto; discriminate.
Qed.

Lemma point_feqb_sym : forall a b, point_feqb a b = point_feqb b a.
Proof. intros a b. unfold point_feqb, dec_feqb. rewrite (fl_eqb_sym (f64_dec (fst a))), (fl_eqb_sym (f64_dec (snd a))). reflexivity. Qed.

Lemma point_feqb_trans : forall a b c, point_feqb a b = true -> point_feqb b c = true -> point_feqb a c = true.
Proof.
  intros a b c H1 H2. unfold point_feqb, dec_feqb in *.
  apply andb_true_iff in H1. apply andb_true_iff in H2. destruct H1, H2. apply andb_true_iff. split; eapply fl_eqb_trans; eauto.
Qed.

(** the verdict on a list whose head fails its pair check or whose second element does *)
Lemma iqt_head_pair_fails : forall pk pm k m r, single_ok k m -> ~ pair_ok pk pm k m ->
  tm_origin pm <> None -> tm_origin m <> None -> rejected (iqt_loop (Some (pk, pm)) ((k, m) :: r)).
Proof.
  intros pk pm k m r S NP O1 O2. simpl. apply check_single_none in S. rewrite S.
  destruct (check_pair pk pm k m) eqn:E.
  - apply check_pair_accept in E. contradiction.
  - eexists; reflexivity.
  - exfalso. eapply check_pair_no_panic; eauto.
Qed.

Lemma pair_origin : forall pk pm k m, pair_ok pk pm k m -> tm_origin pm <> None /\ tm_origin m <> None.
Proof. intros pk pm k m [_ [[o [po [H1 [H2 _]]]] _]]. rewrite H1, H2. split; discriminate. Qed.

(** a change that keeps the per-matrix conditions but breaks the relation to a neighbour *)
Lemma reject_pair : forall t k m f, isQuadTree t = Accept -> In (k, m) (t_matrices t) ->
  single_ok k (f m) -> tm_origin (f m) <> None ->
  (forall pk pm, pair_ok pk pm k m -> ~ pair_ok pk pm k (f m)) ->
  (forall nk nm, pair_ok k m nk nm -> ~ pair_ok k (f m) nk nm) ->
  (2 <= length (t_matrices t))%nat ->
  rejected (isQuadTree (update_tm t k f)).
Proof.
  intros t k m f HA HI HS HO HP HN HL.
  destruct (quad_update_at t k m f HA HI) as [l1 [l2 [ES [HC E]]]]. rewrite E.
  assert (Hlast := chain_ok_app _ _ _ HC). simpl in Hlast. destruct Hlast as [S0 [P0 C0]].
  destruct (lastp None l1) as [[pk pm]|] eqn:EL.
  - (* there is a previous matrix *)
    apply iqt_head_pair_fails; auto. apply pair_origin in P0. tauto.
  - (* k is the first: the next one must exist *)
    destruct l2 as [|[nk nm] r2].
    + exfalso. assert (l1 = []).
      { unfold lastp in EL. destruct (rev l1) eqn:ER; [|discriminate].
        apply (f_equal (@rev _)) in ER. rewrite rev_involutive in ER. exact ER. }
      subst l1. simpl in ES.
      assert (length (sorted_matrices t) = length (t_matrices t))
        by (symmetry; apply Permutation_length, sorted_perm).
      rewrite ES in H. simpl in H. lia.
    + simpl in C0. destruct C0 as [S1 [P1 _]].
      simpl. apply check_single_none in HS. rewrite HS.
      apply check_single_none in S1. rewrite S1.
      destruct (check_pair k (f m) nk nm) eqn:EP.
      * apply check_pair_accept in EP. exfalso. eapply HN; eauto.
      * eexists; reflexivity.
      * exfalso. eapply check_pair_no_panic; eauto. apply pair_origin in P1. tauto.
Qed.
