(** * C14 — proofs about [isQuadTree] / [validate] of Tms/Model.v *)
From Coq Require Import ZArith QArith Qround String Ascii List Bool Lia Permutation Sorted.
From Texel Require Import Tms.Json Tms.Model.
From Texel.Gen Require Import ConstsGen TmsData.
Import ListNotations.
Open Scope Z_scope.
Open Scope list_scope.

(** ** The conditions, as propositions *)
Definition single_ok (k : Z) (m : tileMatrix) : Prop :=
  tm_matrixHeight m = tm_matrixWidth m /\
  tm_tileHeight m = tm_tileWidth m /\
  parse_int (tm_id m) = Some k /\
  vmw_nonempty m = false.

Definition pair_ok (pk : Z) (pm : tileMatrix) (k : Z) (m : tileMatrix) : Prop :=
  k = pk + 1 /\
  (exists o po, tm_origin m = Some o /\ tm_origin pm = Some po /\ point_feqb o po = true) /\
  tm_corner m = tm_corner pm /\
  tm_tileHeight m = tm_tileHeight pm /\
  tm_matrixHeight m = (2 * tm_matrixHeight pm) mod two64 /\
  ratio_ok (tm_cellSize pm) (tm_cellSize m) = true.

Fixpoint chain_ok (prev : option (Z * tileMatrix)) (l : list (Z * tileMatrix)) : Prop :=
  match l with
  | [] => True
  | (k, m) :: r =>
      single_ok k m /\
      match prev with None => k = 0 | Some (pk, pm) => pair_ok pk pm k m end /\
      chain_ok (Some (k, m)) r
  end.

Lemma corner_eqb_eq : forall a b, corner_eqb a b = true <-> a = b.
Proof. intros [] []; simpl; split; intro H; try reflexivity; try discriminate. Qed.

Lemma check_single_none : forall k m, check_single k m = None <-> single_ok k m.
Proof.
  intros k m. unfold check_single, single_ok.
  destruct (Z.eqb_spec (tm_matrixHeight m) (tm_matrixWidth m)) as [E1|E1]; simpl.
  2:{ split; [discriminate| intros [H _]; contradiction]. }
  destruct (Z.eqb_spec (tm_tileHeight m) (tm_tileWidth m)) as [E2|E2]; simpl.
  2:{ split; [discriminate| intros [_ [H _]]; contradiction]. }
  destruct (parse_int (tm_id m)) as [n|] eqn:EP.
  2:{ split; [discriminate| intros [_ [_ [H _]]]; discriminate]. }
  destruct (Z.eqb_spec n k) as [E3|E3]; simpl.
  2:{ split; [discriminate| intros [_ [_ [H _]]]; inversion H; contradiction]. }
  subst n. destruct (vmw_nonempty m) eqn:EV.
  - split; [discriminate| intros [_ [_ [_ H]]]; discriminate].
  - split; intros _; auto.
Qed.

Lemma check_single_some : forall k m c, check_single k m = Some c -> ~ single_ok k m.
Proof. intros k m c H S. apply check_single_none in S. congruence. Qed.

Lemma check_pair_accept : forall pk pm k m, check_pair pk pm k m = Accept <-> pair_ok pk pm k m.
Proof.
  intros pk pm k m. unfold check_pair, pair_ok.
  destruct (Z.eqb_spec k (pk + 1)) as [E1|E1]; cbn [negb].
  2:{ split; [discriminate| intros [H _]; contradiction]. }
  destruct (tm_origin m) as [o|] eqn:EO.
  2:{ split; [discriminate| intros [_ [[o [po [H _]]] _]]; discriminate]. }
  destruct (tm_origin pm) as [po|] eqn:EPO.
  2:{ split; [discriminate| intros [_ [[o' [po [_ [H _]]]] _]]; discriminate]. }
  destruct (point_feqb o po) eqn:EF; cbn [negb].
  2:{ split; [discriminate| intros [_ [[o' [po' [H1 [H2 H3]]]] _]]]. inversion H1; inversion H2; subst. congruence. }
  destruct (corner_eqb (tm_corner m) (tm_corner pm)) eqn:EC; cbn [negb].
  2:{ split; [discriminate| intros [_ [_ [H _]]]]. apply corner_eqb_eq in H. congruence. }
  apply corner_eqb_eq in EC.
  destruct (Z.eqb_spec (tm_tileHeight m) (tm_tileHeight pm)) as [E2|E2]; cbn [negb].
  2:{ split; [discriminate| intros [_ [_ [_ [H _]]]]; contradiction]. }
  destruct (Z.eqb_spec (tm_matrixHeight m) ((2 * tm_matrixHeight pm) mod two64)) as [E3|E3]; cbn [negb].
  2:{ split; [discriminate| intros [_ [_ [_ [_ [H _]]]]]; contradiction]. }
  destruct (ratio_ok (tm_cellSize pm) (tm_cellSize m)) eqn:ER; cbn [negb].
  2:{ split; [discriminate| intros [_ [_ [_ [_ [_ H]]]]]; discriminate]. }
  split; intros _; auto.
  repeat split; auto. exists o, po; auto.
Qed.

Lemma iqt_loop_accept : forall l prev, iqt_loop prev l = Accept <-> chain_ok prev l.
Proof.
  induction l as [|[k m] r IH]; intros prev; simpl.
  - split; auto.
  - destruct (check_single k m) as [c|] eqn:ES.
    + split; [discriminate|]. intros [S _]. exfalso. eapply check_single_some; eauto.
    + apply check_single_none in ES. destruct prev as [[pk pm]|].
      * destruct (check_pair pk pm k m) eqn:EP.
        -- apply check_pair_accept in EP. rewrite IH. tauto.
        -- split; [discriminate|]. intros [_ [P _]]. apply check_pair_accept in P. congruence.
        -- split; [discriminate|]. intros [_ [P _]]. apply check_pair_accept in P. congruence.
      * destruct (Z.eqb_spec k 0) as [E0|E0]; cbn [negb].
        -- rewrite IH. tauto.
        -- split; [discriminate|]. intros [_ [P _]]. contradiction.
Qed.

(** ** Soundness for every record, every level *)
Lemma chain_ok_all_single : forall l prev, chain_ok prev l -> forall k m, In (k, m) l -> single_ok k m.
Proof.
  induction l as [|[k0 m0] r IH]; intros prev H k m HI; simpl in *.
  - contradiction.
  - destruct H as [S [_ C]]. destruct HI as [E|HI].
    + inversion E; subst; auto.
    + eapply IH; eauto.
Qed.

Lemma chain_ok_adjacent : forall l prev, chain_ok prev l ->
  forall i k1 m1 k2 m2, nth_error l i = Some (k1, m1) -> nth_error l (S i) = Some (k2, m2) -> pair_ok k1 m1 k2 m2.
Proof.
  induction l as [|[k0 m0] r IH]; intros prev H i k1 m1 k2 m2 H1 H2.
  - destruct i; discriminate.
  - simpl in H. destruct H as [_ [_ C]]. destruct i as [|i]; simpl in H1, H2.
    + inversion H1; subst. destruct r as [|[k' m'] r']; [discriminate|]. simpl in H2. inversion H2; subst.
      simpl in C. tauto.
    + eapply IH; eauto.
Qed.

(** the ids of an accepted set: the first one is 0 (since the repair of F22), hence they are exactly 0, 1, .., n-1 *)
Fixpoint keys_from (k : Z) (l : list (Z * tileMatrix)) : Prop :=
  match l with
  | [] => True
  | (k', _) :: r => k' = k /\ keys_from (k + 1) r
  end.

Lemma chain_keys : forall l pk pm, chain_ok (Some (pk, pm)) l -> keys_from (pk + 1) l.
Proof.
  induction l as [|[k m] r IH]; intros pk pm H; simpl in *; auto.
  destruct H as [_ [[E _] C]]. split; auto. subst k. eapply IH; eauto.
Qed.

Lemma chain_keys_none : forall l, chain_ok None l -> keys_from 0 l.
Proof.
  intros [|[k m] r] H; cbn [chain_ok keys_from] in *; auto.
  destruct H as [_ [E C]]. split; [exact E|]. subst k. exact (chain_keys r 0 m C).
Qed.

(** 0, 1, .., n-1 *)
Definition iota (n : nat) : list Z := map Z.of_nat (seq 0 n).

Lemma keys_from_map : forall l k, keys_from k l -> map fst l = map (fun i => k + Z.of_nat i) (seq 0 (length l)).
Proof.
  induction l as [|[k' m] r IH]; intros k H; simpl in *; [reflexivity|].
  destruct H as [E H]. subst k'. f_equal; [lia|].
  rewrite (IH _ H). rewrite <- seq_shift, map_map. apply map_ext. intros i. lia.
Qed.

Lemma keys_from_iota : forall l, keys_from 0 l -> map fst l = iota (length l).
Proof. intros l H. rewrite (keys_from_map _ _ H). unfold iota. apply map_ext. intros i. lia. Qed.

Theorem isQuadTree_sound_lemma : forall t, isQuadTree t = Accept ->
  let l := sorted_matrices t in
  (forall k m, In (k, m) l -> single_ok k m) /\
  (forall i k1 m1 k2 m2, nth_error l i = Some (k1, m1) -> nth_error l (S i) = Some (k2, m2) -> pair_ok k1 m1 k2 m2) /\
  (forall k m, nth_error l 0 = Some (k, m) -> k = 0) /\
  map fst l = iota (length l).
Proof.
  intros t H l. unfold isQuadTree in H. apply iqt_loop_accept in H. split; [|split; [|split]].
  - eapply chain_ok_all_single; eauto.
  - eapply chain_ok_adjacent; eauto.
  - intros k m H0. fold l in H. destruct l as [|[k0 m0] r]; [discriminate|]. simpl in H0. inversion H0; subst.
    simpl in H. tauto.
  - apply keys_from_iota. apply chain_keys_none. exact H.
Qed.

(** the sorted list is a permutation of the map *)
Lemma insert_by_key_perm : forall e l, Permutation (e :: l) (insert_by_key e l).
Proof.
  intros e l. induction l as [|e' r IH]; simpl; auto.
  destruct (fst e <? fst e'); auto.
  eapply perm_trans; [apply perm_swap|]. constructor. exact IH.
Qed.

Lemma sorted_perm : forall l, Permutation l (fold_right insert_by_key [] l).
Proof.
  induction l as [|e r IH]; simpl; auto.
  eapply perm_trans; [|apply insert_by_key_perm]. constructor. exact IH.
Qed.

Lemma in_sorted_iff : forall t e, In e (sorted_matrices t) <-> In e (t_matrices t).
Proof.
  intros t e. unfold sorted_matrices. split; intro H.
  - eapply Permutation_in; [apply Permutation_sym, sorted_perm|exact H].
  - eapply Permutation_in; [apply sorted_perm|exact H].
Qed.

(** ** No panic when every matrix has a point of origin *)
Definition origins_present (l : list (Z * tileMatrix)) : Prop := forall k m, In (k, m) l -> tm_origin m <> None.

Lemma check_pair_no_panic : forall pk pm k m, tm_origin pm <> None -> tm_origin m <> None -> check_pair pk pm k m <> VPanic.
Proof.
  intros pk pm k m H1 H2. unfold check_pair.
  destruct (negb (k =? pk + 1)); [discriminate|].
  destruct (tm_origin m); [|contradiction]. destruct (tm_origin pm); [|contradiction].
  destruct (negb (point_feqb p p0)); [discriminate|].
  destruct (negb (corner_eqb (tm_corner m) (tm_corner pm))); [discriminate|].
  destruct (negb (tm_tileHeight m =? tm_tileHeight pm)); [discriminate|].
  destruct (negb (tm_matrixHeight m =? (2 * tm_matrixHeight pm) mod two64)); [discriminate|].
  destruct (negb (ratio_ok (tm_cellSize pm) (tm_cellSize m))); discriminate.
Qed.

Lemma iqt_loop_no_panic : forall l prev,
  origins_present l -> match prev with Some (_, pm) => tm_origin pm <> None | None => True end ->
  iqt_loop prev l <> VPanic.
Proof.
  induction l as [|[k m] r IH]; intros prev HO HP; simpl.
  - discriminate.
  - assert (Hm : tm_origin m <> None) by (apply (HO k m); left; reflexivity).
    assert (Hr : origins_present r) by (intros k' m' HI; apply (HO k' m'); right; exact HI).
    destruct (check_single k m); [discriminate|].
    destruct prev as [[pk pm]|].
    + destruct (check_pair pk pm k m) eqn:EP.
      * apply IH; [exact Hr|exact Hm].
      * discriminate.
      * exfalso. exact (check_pair_no_panic pk pm k m HP Hm EP).
    + destruct (negb (k =? 0)); [discriminate|]. apply IH; [exact Hr|exact Hm].
Qed.

Lemma isQuadTree_no_panic : forall t, origins_present (t_matrices t) -> isQuadTree t <> VPanic.
Proof.
  intros t H. unfold isQuadTree. apply iqt_loop_no_panic; auto.
  intros k m HI. apply (H k m). apply in_sorted_iff. exact HI.
Qed.

(** ** Perturbations *)
Definition upd (k : Z) (f : tileMatrix -> tileMatrix) (l : list (Z * tileMatrix)) : list (Z * tileMatrix) :=
  map (fun e => if fst e =? k then (fst e, f (snd e)) else e) l.

Definition set_matrices (t : tms) (l : list (Z * tileMatrix)) : tms :=
  MkTMS (t_id t) (t_title t) (t_description t) (t_keywords t) (t_uri t) (t_orderedAxes t) (t_wkss t) (t_bbox t) (t_crs t) l.

(** replace the matrix with key k by [f] of it / delete it *)
Definition update_tm (t : tms) (k : Z) (f : tileMatrix -> tileMatrix) : tms := set_matrices t (upd k f (t_matrices t)).
Definition delete_tm (t : tms) (k : Z) : tms := set_matrices t (filter (fun e => negb (fst e =? k)) (t_matrices t)).

Definition with_matrixWidth (v : Z) (m : tileMatrix) : tileMatrix :=
  MkTM (tm_id m) (tm_title m) (tm_description m) (tm_keywords m) (tm_scaleDenominator m) (tm_cellSize m) (tm_corner m) (tm_origin m) (tm_tileWidth m) (tm_tileHeight m) v (tm_matrixHeight m) (tm_vmw m).
Definition with_matrixHeight (v : Z) (m : tileMatrix) : tileMatrix :=
  MkTM (tm_id m) (tm_title m) (tm_description m) (tm_keywords m) (tm_scaleDenominator m) (tm_cellSize m) (tm_corner m) (tm_origin m) (tm_tileWidth m) (tm_tileHeight m) (tm_matrixWidth m) v (tm_vmw m).
Definition with_tileWidth (v : Z) (m : tileMatrix) : tileMatrix :=
  MkTM (tm_id m) (tm_title m) (tm_description m) (tm_keywords m) (tm_scaleDenominator m) (tm_cellSize m) (tm_corner m) (tm_origin m) v (tm_tileHeight m) (tm_matrixWidth m) (tm_matrixHeight m) (tm_vmw m).
Definition with_tileHeight (v : Z) (m : tileMatrix) : tileMatrix :=
  MkTM (tm_id m) (tm_title m) (tm_description m) (tm_keywords m) (tm_scaleDenominator m) (tm_cellSize m) (tm_corner m) (tm_origin m) (tm_tileWidth m) v (tm_matrixWidth m) (tm_matrixHeight m) (tm_vmw m).
Definition with_origin (o : dec * dec) (m : tileMatrix) : tileMatrix :=
  MkTM (tm_id m) (tm_title m) (tm_description m) (tm_keywords m) (tm_scaleDenominator m) (tm_cellSize m) (tm_corner m) (Some o) (tm_tileWidth m) (tm_tileHeight m) (tm_matrixWidth m) (tm_matrixHeight m) (tm_vmw m).
Definition with_corner (c : corner) (m : tileMatrix) : tileMatrix :=
  MkTM (tm_id m) (tm_title m) (tm_description m) (tm_keywords m) (tm_scaleDenominator m) (tm_cellSize m) c (tm_origin m) (tm_tileWidth m) (tm_tileHeight m) (tm_matrixWidth m) (tm_matrixHeight m) (tm_vmw m).
Definition with_cellSize (d : dec) (m : tileMatrix) : tileMatrix :=
  MkTM (tm_id m) (tm_title m) (tm_description m) (tm_keywords m) (tm_scaleDenominator m) d (tm_corner m) (tm_origin m) (tm_tileWidth m) (tm_tileHeight m) (tm_matrixWidth m) (tm_matrixHeight m) (tm_vmw m).
Definition with_vmw (v : list vmw) (m : tileMatrix) : tileMatrix :=
  MkTM (tm_id m) (tm_title m) (tm_description m) (tm_keywords m) (tm_scaleDenominator m) (tm_cellSize m) (tm_corner m) (tm_origin m) (tm_tileWidth m) (tm_tileHeight m) (tm_matrixWidth m) (tm_matrixHeight m) (Some v).

(** sorting commutes with key-preserving updates and key-based deletion *)
Lemma insert_by_key_upd : forall k f e l,
  insert_by_key (if fst e =? k then (fst e, f (snd e)) else e) (upd k f l) = upd k f (insert_by_key e l).
Proof.
  intros k f e l. induction l as [|e' r IH]; simpl.
  - reflexivity.
  - assert (F : forall x : Z * tileMatrix, fst (if fst x =? k then (fst x, f (snd x)) else x) = fst x)
      by (intros x; destruct (fst x =? k); reflexivity).
    rewrite !F. destruct (fst e <? fst e'); simpl.
    + reflexivity.
    + rewrite <- IH. reflexivity.
Qed.

Lemma sort_upd : forall k f l, fold_right insert_by_key [] (upd k f l) = upd k f (fold_right insert_by_key [] l).
Proof.
  intros k f l. induction l as [|e r IH]; simpl; auto.
  rewrite IH. apply insert_by_key_upd.
Qed.

Lemma sorted_update : forall t k f, sorted_matrices (update_tm t k f) = upd k f (sorted_matrices t).
Proof. intros. unfold sorted_matrices, update_tm, set_matrices; simpl. apply sort_upd. Qed.

Definition keep (k : Z) (e : Z * tileMatrix) : bool := negb (fst e =? k).

Definition key_le (a b : Z * tileMatrix) : Prop := fst a <= fst b.

Lemma insert_by_key_lt_all : forall e l, (forall x, In x l -> fst e < fst x) -> insert_by_key e l = e :: l.
Proof.
  intros e [|x r] H; simpl; auto.
  assert (fst e < fst x) by (apply H; left; reflexivity).
  destruct (Z.ltb_spec (fst e) (fst x)); [reflexivity|lia].
Qed.

Lemma insert_by_key_sorted : forall e l, StronglySorted key_le l -> StronglySorted key_le (insert_by_key e l).
Proof.
  intros e l H. induction H as [|x r HS IH HF]; simpl.
  - constructor; constructor.
  - destruct (Z.ltb_spec (fst e) (fst x)) as [L|L].
    + constructor.
      * constructor; auto.
      * constructor; [unfold key_le; lia|].
        rewrite Forall_forall in *. intros y Hy. specialize (HF y Hy). unfold key_le in *. lia.
    + constructor; auto.
      rewrite Forall_forall in *. intros y Hy.
      eapply Permutation_in in Hy; [|apply Permutation_sym, insert_by_key_perm].
      destruct Hy as [E|Hy]; [subst; unfold key_le; lia|auto].
Qed.

Lemma sort_sorted : forall l, StronglySorted key_le (fold_right insert_by_key [] l).
Proof. induction l; simpl; [constructor|apply insert_by_key_sorted; auto]. Qed.

Lemma insert_by_key_filter : forall k e l, StronglySorted key_le l ->
  filter (keep k) (insert_by_key e l) = if keep k e then insert_by_key e (filter (keep k) l) else filter (keep k) l.
Proof.
  intros k e l H. induction H as [|x r HS IH HF]; simpl.
  - destruct (keep k e); reflexivity.
  - destruct (Z.ltb_spec (fst e) (fst x)) as [L|L]; simpl.
    + destruct (keep k e) eqn:KE; destruct (keep k x) eqn:KX; simpl.
      * destruct (Z.ltb_spec (fst e) (fst x)); [reflexivity|lia].
      * symmetry. apply insert_by_key_lt_all. intros y Hy. apply filter_In in Hy. destruct Hy as [Hy _].
        rewrite Forall_forall in HF. specialize (HF y Hy). unfold key_le in HF. lia.
      * reflexivity.
      * reflexivity.
    + rewrite IH. destruct (keep k e) eqn:KE; destruct (keep k x) eqn:KX; simpl.
      * destruct (Z.ltb_spec (fst e) (fst x)); [lia|reflexivity].
      * reflexivity.
      * reflexivity.
      * reflexivity.
Qed.

Lemma sort_filter : forall k l,
  fold_right insert_by_key [] (filter (keep k) l) = filter (keep k) (fold_right insert_by_key [] l).
Proof.
  intros k l. induction l as [|e r IH]; simpl; auto.
  rewrite insert_by_key_filter by apply sort_sorted.
  destruct (keep k e); simpl; rewrite IH; reflexivity.
Qed.

Lemma sorted_delete : forall t k, sorted_matrices (delete_tm t k) = filter (keep k) (sorted_matrices t).
Proof. intros. unfold sorted_matrices, delete_tm, set_matrices; simpl. apply sort_filter. Qed.

(** keys along an accepted chain are consecutive *)
Lemma keys_from_in : forall l k k' m, keys_from k l -> In (k', m) l -> k <= k'.
Proof.
  induction l as [|[k0 m0] r IH]; intros k k' m H HI; simpl in *; [contradiction|].
  destruct H as [E H]. destruct HI as [HI|HI].
  - inversion HI; subst; lia.
  - specialize (IH _ _ _ H HI). lia.
Qed.

(** traversal of an accepted prefix *)
Definition lastp (prev : option (Z * tileMatrix)) (l : list (Z * tileMatrix)) : option (Z * tileMatrix) :=
  match rev l with [] => prev | e :: _ => Some e end.

Lemma lastp_cons : forall prev e l, lastp prev (e :: l) = lastp (Some e) l.
Proof.
  intros prev e l. unfold lastp. simpl. destruct (rev l) eqn:ER; simpl; auto.
Qed.

Lemma iqt_loop_prefix : forall l1 prev rest rest',
  chain_ok prev (l1 ++ rest) -> iqt_loop prev (l1 ++ rest') = iqt_loop (lastp prev l1) rest'.
Proof.
  induction l1 as [|[k m] r IH]; intros prev rest rest' H.
  - reflexivity.
  - rewrite lastp_cons. simpl app in *. simpl in H. destruct H as [S [P C]].
    simpl. apply check_single_none in S. rewrite S.
    destruct prev as [[pk pm]|].
    + apply check_pair_accept in P. rewrite P. eapply IH; eauto.
    + subst k. cbn [Z.eqb negb]. eapply IH; eauto.
Qed.

Lemma chain_ok_app : forall l1 prev rest, chain_ok prev (l1 ++ rest) -> chain_ok (lastp prev l1) rest.
Proof.
  induction l1 as [|[k m] r IH]; intros prev rest H.
  - exact H.
  - rewrite lastp_cons. simpl in H. destruct H as [_ [_ C]]. eapply IH; eauto.
Qed.

Lemma chain_ok_prefix_keys : forall l1 prev rest k m k' m',
  chain_ok prev (l1 ++ (k, m) :: rest) -> In (k', m') l1 -> k' < k.
Proof.
  induction l1 as [|[k0 m0] r IH]; intros prev rest k m k' m' H HI; [contradiction|].
  simpl in H. destruct H as [_ [_ C]]. destruct HI as [E|HI].
  - inversion E; subst. apply chain_keys in C.
    assert (In (k, m) (r ++ (k, m) :: rest)) by (apply in_or_app; right; left; reflexivity).
    eapply keys_from_in in C; eauto. lia.
  - eapply IH; eauto.
Qed.

Lemma upd_other : forall k f l, (forall k' m', In (k', m') l -> k' <> k) -> upd k f l = l.
Proof.
  intros k f l H. induction l as [|[k0 m0] r IH]; simpl; auto.
  assert (k0 <> k) by (eapply H; left; reflexivity).
  destruct (Z.eqb_spec k0 k); [contradiction|]. simpl. f_equal. apply IH. intros; eapply H; right; eauto.
Qed.

Lemma filter_keep_other : forall k l, (forall k' m', In (k', m') l -> k' <> k) -> filter (keep k) l = l.
Proof.
  intros k l H. induction l as [|[k0 m0] r IH]; simpl; auto.
  assert (k0 <> k) by (eapply H; left; reflexivity).
  unfold keep at 1. simpl. destruct (Z.eqb_spec k0 k); [contradiction|]. simpl. f_equal. apply IH. intros; eapply H; right; eauto.
Qed.

(** an accepted sorted list splits at any of its members; the other keys differ *)
Lemma accepted_split : forall l k m, chain_ok None l -> In (k, m) l ->
  exists l1 l2 : list (Z * tileMatrix), l = (l1 ++ (k, m) :: l2)%list /\
    (forall k' m', In (k', m') l1 -> k' < k) /\ (forall k' m', In (k', m') l2 -> k < k').
Proof.
  intros l k m H HI. destruct (in_split _ _ HI) as [l1 [l2 E]]. exists l1, l2. subst l. split; [reflexivity|]. split.
  - intros k' m' HI'. eapply chain_ok_prefix_keys; eauto.
  - intros k' m' HI'. apply chain_ok_app in H. simpl in H. destruct H as [_ [_ C]].
    apply chain_keys in C. eapply keys_from_in in C; eauto. lia.
Qed.

Lemma upd_split : forall k f l1 m l2,
  (forall k' m', In (k', m') l1 -> k' < k) -> (forall k' m', In (k', m') l2 -> k < k') ->
  upd k f (l1 ++ (k, m) :: l2) = l1 ++ (k, f m) :: l2.
Proof.
  intros k f l1 m l2 H1 H2. unfold upd. rewrite map_app. simpl. rewrite Z.eqb_refl. simpl.
  fold (upd k f l1). fold (upd k f l2). rewrite !upd_other; auto.
  - intros k' m' HI. specialize (H2 _ _ HI). lia.
  - intros k' m' HI. specialize (H1 _ _ HI). lia.
Qed.

Lemma filter_split : forall k l1 m l2,
  (forall k' m', In (k', m') l1 -> k' < k) -> (forall k' m', In (k', m') l2 -> k < k') ->
  filter (keep k) (l1 ++ (k, m) :: l2) = l1 ++ l2.
Proof.
  intros k l1 m l2 H1 H2. rewrite filter_app. simpl. unfold keep at 2. simpl. rewrite Z.eqb_refl. simpl.
  rewrite !filter_keep_other; auto.
  - intros k' m' HI. specialize (H2 _ _ HI). lia.
  - intros k' m' HI. specialize (H1 _ _ HI). lia.
Qed.

Definition rejected (v : verdict) : Prop := exists n, v = Reject n.

Lemma validate_of_rejected_quad : forall t ids, rejected (isQuadTree t) -> rejected (validate t ids).
Proof. intros t ids [n H]. unfold validate. rewrite H. exists n; reflexivity. Qed.

Lemma validate_accept_quad : forall t ids, validate t ids = Accept -> isQuadTree t = Accept.
Proof. intros t ids H. unfold validate in H. destruct (isQuadTree t); auto; discriminate. Qed.

(** the generic step: an accepted set whose matrix k is replaced by m' is judged at k *)
Lemma quad_update_at : forall t k m f, isQuadTree t = Accept -> In (k, m) (t_matrices t) ->
  exists l1 l2 : list (Z * tileMatrix), sorted_matrices t = (l1 ++ (k, m) :: l2)%list /\
    chain_ok None (l1 ++ (k, m) :: l2)%list /\
    isQuadTree (update_tm t k f) = iqt_loop (lastp None l1) ((k, f m) :: l2).
Proof.
  intros t k m f HA HI. unfold isQuadTree in HA. apply iqt_loop_accept in HA.
  apply in_sorted_iff in HI.
  destruct (accepted_split _ _ _ HA HI) as [l1 [l2 [E [H1 H2]]]].
  exists l1, l2. split; [exact E|]. split; [rewrite <- E; exact HA|].
  unfold isQuadTree. rewrite sorted_update, E, upd_split by assumption.
  eapply iqt_loop_prefix. rewrite <- E. exact HA.
Qed.

(** breaking a per-matrix condition *)
Lemma reject_single : forall t k m f, isQuadTree t = Accept -> In (k, m) (t_matrices t) ->
  ~ single_ok k (f m) -> rejected (isQuadTree (update_tm t k f)).
Proof.
  intros t k m f HA HI HS.
  destruct (quad_update_at t k m f HA HI) as [l1 [l2 [_ [_ E]]]]. rewrite E. simpl.
  destruct (check_single k (f m)) as [c|] eqn:EC.
  - exists c; reflexivity.
  - apply check_single_none in EC. contradiction.
Qed.

(** float64 equality of points is an equivalence *)
Lemma fl_eqb_sym : forall a b, fl_eqb a b = fl_eqb b a.
Proof.
  intros [x|s] [y|t]; simpl; auto.
  - destruct (Qeq_bool x y) eqn:E1; destruct (Qeq_bool y x) eqn:E2; auto.
    + apply Qeq_bool_iff in E1. symmetry in E1. apply Qeq_bool_iff in E1. congruence.
    + apply Qeq_bool_iff in E2. symmetry in E2. apply Qeq_bool_iff in E2. congruence.
  - destruct s, t; reflexivity.
Qed.

Lemma fl_eqb_trans : forall a b c, fl_eqb a b = true -> fl_eqb b c = true -> fl_eqb a c = true.
Proof.
  intros [x|s] [y|t] [z|u]; simpl; intros H1 H2; try discriminate.
  - apply Qeq_bool_iff in H1. apply Qeq_bool_iff in H2. apply Qeq_bool_iff. rewrite H1. exact H2.
  - destruct s, t, u; simpl in *; auto; discriminate.
Qed.

Lemma point_feqb_sym : forall a b, point_feqb a b = point_feqb b a.
Proof. intros a b. unfold point_feqb, dec_feqb. rewrite (fl_eqb_sym (f64_dec (fst a))), (fl_eqb_sym (f64_dec (snd a))). reflexivity. Qed.

Lemma point_feqb_trans : forall a b c, point_feqb a b = true -> point_feqb b c = true -> point_feqb a c = true.
Proof.
  intros a b c H1 H2. unfold point_feqb, dec_feqb in *.
  apply andb_true_iff in H1. apply andb_true_iff in H2. destruct H1, H2. apply andb_true_iff. split; eapply fl_eqb_trans; eauto.
Qed.

(** the verdict on a list whose head fails its pair check or whose second element does *)
Lemma iqt_head_pair_fails : forall pk pm k m r, single_ok k m -> ~ pair_ok pk pm k m ->
  tm_origin pm <> None -> tm_origin m <> None -> rejected (iqt_loop (Some (pk, pm)) ((k, m) :: r)).
Proof.
  intros pk pm k m r S NP O1 O2. simpl. apply check_single_none in S. rewrite S.
  destruct (check_pair pk pm k m) eqn:E.
  - apply check_pair_accept in E. contradiction.
  - eexists; reflexivity.
  - exfalso. exact (check_pair_no_panic pk pm k m O1 O2 E).
Qed.

Lemma pair_origin : forall pk pm k m, pair_ok pk pm k m -> tm_origin pm <> None /\ tm_origin m <> None.
Proof. intros pk pm k m [_ [[o [po [H1 [H2 _]]]] _]]. rewrite H1, H2. split; discriminate. Qed.

(** a change that keeps the per-matrix conditions but breaks the relation to a neighbour *)
Lemma reject_pair : forall t k m f, isQuadTree t = Accept -> In (k, m) (t_matrices t) ->
  single_ok k (f m) -> tm_origin (f m) <> None ->
  (forall pk pm, pair_ok pk pm k m -> ~ pair_ok pk pm k (f m)) ->
  (forall nk nm, pair_ok k m nk nm -> ~ pair_ok k (f m) nk nm) ->
  (2 <= length (t_matrices t))%nat ->
  rejected (isQuadTree (update_tm t k f)).
Proof.
  intros t k m f HA HI HS HO HP HN HL.
  destruct (quad_update_at t k m f HA HI) as [l1 [l2 [ES [HC E]]]]. rewrite E.
  assert (Hlast := chain_ok_app _ _ _ HC). simpl in Hlast. destruct Hlast as [S0 [P0 C0]].
  destruct (lastp None l1) as [[pk pm]|] eqn:EL.
  - (* there is a previous matrix *)
    apply iqt_head_pair_fails; auto. apply pair_origin in P0. tauto.
  - (* k is the first: the next one must exist *)
    destruct l2 as [|[nk nm] r2].
    + exfalso. assert (l1 = []).
      { unfold lastp in EL. destruct (rev l1) eqn:ER; [|discriminate].
        apply (f_equal (@rev _)) in ER. rewrite rev_involutive in ER. exact ER. }
      subst l1. simpl in ES.
      assert (length (sorted_matrices t) = length (t_matrices t))
        by (symmetry; apply Permutation_length, sorted_perm).
      rewrite ES in H. simpl in H. lia.
    + simpl in C0. destruct C0 as [S1 [P1 _]].
      simpl. apply check_single_none in HS. rewrite HS.
      destruct (Z.eqb_spec k 0) as [K0|K0]; [cbn [negb]|contradiction].
      apply check_single_none in S1. rewrite S1.
      destruct (check_pair k (f m) nk nm) eqn:EP.
      * apply check_pair_accept in EP. exfalso. eapply HN; eauto.
      * eexists; reflexivity.
      * exfalso. apply pair_origin in P1. destruct P1 as [_ ON].
        exact (check_pair_no_panic k (f m) nk nm HO ON EP).
Qed.

(** ** The perturbation theorem *)
Lemma lastp_in : forall l e, lastp None l = Some e -> In e l.
Proof.
  intros l e H. unfold lastp in H. destruct (rev l) as [|x r] eqn:ER; [discriminate|].
  inversion H; subst. apply in_rev. rewrite ER. left; reflexivity.
Qed.

Lemma lastp_none : forall l, lastp None l = None -> l = [].
Proof.
  intros l H. unfold lastp in H. destruct (rev l) eqn:ER; [|discriminate].
  apply (f_equal (@rev _)) in ER. rewrite rev_involutive in ER. exact ER.
Qed.

Lemma chain_in_unique : forall l k a b, chain_ok None l -> In (k, a) l -> In (k, b) l -> a = b.
Proof.
  intros l k a b H Ha Hb. destruct (accepted_split _ _ _ H Ha) as [l1 [l2 [E [H1 H2]]]]. subst l.
  apply in_app_or in Hb. destruct Hb as [Hb|[Hb|Hb]].
  - specialize (H1 _ _ Hb). lia.
  - inversion Hb; reflexivity.
  - specialize (H2 _ _ Hb). lia.
Qed.

Lemma find_tm_filter : forall k l, find_tm k (filter (keep k) l) = None.
Proof.
  intros k l. induction l as [|[k0 m0] r IH]; simpl; auto.
  unfold keep at 1. simpl. destruct (Z.eqb_spec k0 k); simpl; auto.
  destruct (Z.eqb_spec k k0); [subst; contradiction|auto].
Qed.

Lemma single_ok_ext : forall k m m',
  tm_matrixHeight m' = tm_matrixHeight m -> tm_matrixWidth m' = tm_matrixWidth m ->
  tm_tileHeight m' = tm_tileHeight m -> tm_tileWidth m' = tm_tileWidth m ->
  tm_id m' = tm_id m -> tm_vmw m' = tm_vmw m -> single_ok k m -> single_ok k m'.
Proof.
  intros k m m' H1 H2 H3 H4 H5 H6 [A [B [C D]]]. unfold single_ok, vmw_nonempty in *.
  rewrite H1, H2, H3, H4, H5, H6. auto.
Qed.

(** the previous / next matrix of an accepted set, by key *)
Lemma prev_is_last : forall l1 k m l2 pm,
  chain_ok None (l1 ++ (k, m) :: l2) -> In (k - 1, pm) (l1 ++ (k, m) :: l2) -> lastp None l1 = Some (k - 1, pm).
Proof.
  intros l1 k m l2 pm HC HI.
  assert (Hl := chain_ok_app _ _ _ HC). simpl in Hl. destruct Hl as [_ [P _]].
  destruct (lastp None l1) as [[pk pm0]|] eqn:EL.
  - destruct P as [E _]. assert (pk = k - 1) by lia. subst pk.
    apply lastp_in in EL. f_equal. f_equal.
    eapply chain_in_unique; [exact HC| |exact HI]. apply in_or_app; left; exact EL.
  - apply lastp_none in EL. subst l1. simpl in *. destruct HC as [_ [_ C]]. destruct HI as [HI|HI].
    + inversion HI; lia.
    + apply chain_keys in C. eapply keys_from_in in C; eauto. lia.
Qed.

Lemma next_is_head : forall l1 k m l2 nm,
  chain_ok None (l1 ++ (k, m) :: l2) -> In (k + 1, nm) (l1 ++ (k, m) :: l2) -> exists r2, l2 = (k + 1, nm) :: r2.
Proof.
  intros l1 k m l2 nm HC HI.
  assert (Hl := chain_ok_app _ _ _ HC). simpl in Hl. destruct Hl as [_ [_ C]].
  destruct l2 as [|[nk nm0] r2].
  - exfalso. apply in_app_or in HI. destruct HI as [HI|[HI|[]]].
    + eapply chain_ok_prefix_keys in HI; eauto. lia.
    + inversion HI; lia.
  - simpl in C. destruct C as [_ [[E _] _]]. subst nk. exists r2. f_equal. f_equal.
    eapply chain_in_unique; [exact HC| |exact HI]. apply in_or_app; right; right; left; reflexivity.
Qed.

(** ** Renumbering and removing the first matrices (F22) *)
Definition with_id (s : string) (m : tileMatrix) : tileMatrix :=
  MkTM s (tm_title m) (tm_description m) (tm_keywords m) (tm_scaleDenominator m) (tm_cellSize m) (tm_corner m) (tm_origin m) (tm_tileWidth m) (tm_tileHeight m) (tm_matrixWidth m) (tm_matrixHeight m) (tm_vmw m).

(** every tile matrix k becomes tile matrix k + s: the map key and the id string (strconv.Itoa) together, so that the
    set stays consistent in everything else *)
Definition shift_entry (s : Z) (e : Z * tileMatrix) : Z * tileMatrix := (fst e + s, with_id (itoa (fst e + s)) (snd e)).
Definition shift_ids (t : tms) (s : Z) : tms := set_matrices t (map (shift_entry s) (t_matrices t)).

(** the tile matrices with an id below j removed *)
Definition remove_below (t : tms) (j : Z) : tms := set_matrices t (filter (fun e => j <=? fst e) (t_matrices t)).

Lemma insert_by_key_shift : forall s e l,
  insert_by_key (shift_entry s e) (map (shift_entry s) l) = map (shift_entry s) (insert_by_key e l).
Proof.
  intros s e l. induction l as [|e' r IH]; [reflexivity|].
  cbn [map insert_by_key].
  assert (F : (fst (shift_entry s e) <? fst (shift_entry s e')) = (fst e <? fst e')).
  { unfold shift_entry; cbn [fst].
    destruct (Z.ltb_spec (fst e) (fst e')); destruct (Z.ltb_spec (fst e + s) (fst e' + s)); auto; lia. }
  rewrite F. destruct (fst e <? fst e'); [reflexivity|].
  cbn [map]. f_equal. exact IH.
Qed.

Lemma sort_shift : forall s l,
  fold_right insert_by_key [] (map (shift_entry s) l) = map (shift_entry s) (fold_right insert_by_key [] l).
Proof.
  intros s l. induction l as [|e r IH]; [reflexivity|].
  cbn [map fold_right]. rewrite IH. apply insert_by_key_shift.
Qed.

Lemma sorted_shift : forall t s, sorted_matrices (shift_ids t s) = map (shift_entry s) (sorted_matrices t).
Proof. intros. unfold sorted_matrices, shift_ids, set_matrices; simpl. apply sort_shift. Qed.

(** a non-empty list of matrices whose first id is not 0 is rejected with an error: by a per-matrix check of the
    first matrix, or by the check of the first id *)
Lemma iqt_first_nonzero : forall k m r, k <> 0 -> rejected (iqt_loop None ((k, m) :: r)).
Proof.
  intros k m r Hk. cbn [iqt_loop]. destruct (check_single k m) as [c|]; [eexists; reflexivity|].
  destruct (Z.eqb_spec k 0); [contradiction|]. cbn [negb]. eexists; reflexivity.
Qed.

Lemma iqt_no_zero : forall l, l <> [] -> (forall k m, In (k, m) l -> k <> 0) -> rejected (iqt_loop None l).
Proof.
  intros [|[k m] r] HN H; [contradiction|]. apply iqt_first_nonzero. apply (H k m). left; reflexivity.
Qed.

Lemma accepted_head : forall t, isQuadTree t = Accept -> t_matrices t <> [] ->
  exists m r, sorted_matrices t = (0, m) :: r.
Proof.
  intros t HA HN. unfold isQuadTree in HA. apply iqt_loop_accept in HA.
  destruct (sorted_matrices t) as [|[k m] r] eqn:ES.
  - exfalso. apply HN. destruct (t_matrices t) as [|e r] eqn:ET; [reflexivity|].
    assert (HI : In e (sorted_matrices t)) by (apply in_sorted_iff; rewrite ET; left; reflexivity).
    rewrite ES in HI. contradiction.
  - simpl in HA. destruct HA as [_ [E _]]. subst k. eauto.
Qed.

Lemma shift_rejected : forall t s, isQuadTree t = Accept -> t_matrices t <> [] -> s <> 0 ->
  rejected (isQuadTree (shift_ids t s)).
Proof.
  intros t s HA HN Hs. destruct (accepted_head t HA HN) as [m [r ES]].
  unfold isQuadTree. rewrite sorted_shift, ES. cbn [map]. unfold shift_entry at 1. cbn [fst snd].
  apply iqt_first_nonzero. lia.
Qed.

Lemma remove_below_rejected : forall t j j' m', 0 < j -> In (j', m') (t_matrices t) -> j <= j' ->
  rejected (isQuadTree (remove_below t j)).
Proof.
  intros t j j' m' Hj HI Hle. unfold isQuadTree. apply iqt_no_zero.
  - intro E.
    assert (HI' : In (j', m') (sorted_matrices (remove_below t j))).
    { apply in_sorted_iff. unfold remove_below, set_matrices. cbn [t_matrices].
      apply filter_In. split; [exact HI|]. cbn [fst]. apply Z.leb_le. exact Hle. }
    rewrite E in HI'. contradiction.
  - intros k m HIn. apply in_sorted_iff in HIn. unfold remove_below, set_matrices in HIn. cbn [t_matrices] in HIn.
    apply filter_In in HIn. destruct HIn as [_ HK]. cbn [fst] in HK. apply Z.leb_le in HK. lia.
Qed.

Lemma delete_zero_rejected : forall t, isQuadTree t = Accept -> (2 <= length (t_matrices t))%nat ->
  rejected (isQuadTree (delete_tm t 0)).
Proof.
  intros t HA HL.
  assert (HC : chain_ok None (sorted_matrices t)) by (apply iqt_loop_accept; exact HA).
  assert (LEN : length (sorted_matrices t) = length (t_matrices t))
    by (symmetry; apply Permutation_length, sorted_perm).
  unfold isQuadTree. rewrite sorted_delete.
  destruct (sorted_matrices t) as [|[k0 m0] [|[k1 m1] r]] eqn:ES; cbn [length] in LEN; try lia.
  cbn [chain_ok] in HC. destruct HC as [_ [E0 [_ [[E1 _] C]]]]. subst k0 k1.
  cbn [filter]. unfold keep at 1 2. cbn [fst]. change (negb (0 =? 0)) with false. change (negb (0 + 1 =? 0)) with true.
  cbn iota. apply iqt_first_nonzero. lia.
Qed.

Theorem perturbation_rejected_lemma : forall t ids k m,
  validate t ids = Accept -> In (k, m) (t_matrices t) ->
  (forall v, v <> tm_matrixWidth m -> rejected (validate (update_tm t k (with_matrixWidth v)) ids)) /\
  (forall v, v <> tm_matrixHeight m -> rejected (validate (update_tm t k (with_matrixHeight v)) ids)) /\
  (forall v, v <> tm_tileWidth m -> rejected (validate (update_tm t k (with_tileWidth v)) ids)) /\
  (forall v, v <> tm_tileHeight m -> rejected (validate (update_tm t k (with_tileHeight v)) ids)) /\
  (forall o o0, (2 <= length (t_matrices t))%nat -> tm_origin m = Some o0 -> point_feqb o o0 = false ->
     rejected (validate (update_tm t k (with_origin o)) ids)) /\
  (forall c, (2 <= length (t_matrices t))%nat -> c <> tm_corner m ->
     rejected (validate (update_tm t k (with_corner c)) ids)) /\
  (forall d, (exists pm, In (k - 1, pm) (t_matrices t) /\ ratio_ok (tm_cellSize pm) d = false) \/
             (exists nm, In (k + 1, nm) (t_matrices t) /\ ratio_ok d (tm_cellSize nm) = false) ->
     rejected (validate (update_tm t k (with_cellSize d)) ids)) /\
  (forall nm, In (k + 1, nm) (t_matrices t) -> (k = 0 \/ exists pm, In (k - 1, pm) (t_matrices t)) ->
     rejected (validate (delete_tm t k) ids)) /\
  (forall v vs, rejected (validate (update_tm t k (with_vmw (v :: vs))) ids)) /\
  (forall s, s <> 0 -> rejected (isQuadTree (shift_ids t s)) /\ rejected (validate (shift_ids t s) ids)) /\
  ((2 <= length (t_matrices t))%nat ->
     rejected (isQuadTree (delete_tm t 0)) /\ rejected (validate (delete_tm t 0) ids)) /\
  (forall j, 0 < j -> j <= k ->
     rejected (isQuadTree (remove_below t j)) /\ rejected (validate (remove_below t j) ids)).
Proof.
  intros t ids k m HV HI. assert (HA := validate_accept_quad _ _ HV).
  assert (HC0 : chain_ok None (sorted_matrices t)) by (apply iqt_loop_accept; exact HA).
  assert (HS : single_ok k m) by (eapply chain_ok_all_single; [exact HC0|apply in_sorted_iff; exact HI]).
  destruct HS as [S1 [S2 [S3 S4]]].
  repeat split.
  - intros v Hv. apply validate_of_rejected_quad. eapply reject_single; eauto.
    intros [A _]. simpl in A. congruence.
  - intros v Hv. apply validate_of_rejected_quad. eapply reject_single; eauto.
    intros [A _]. simpl in A. congruence.
  - intros v Hv. apply validate_of_rejected_quad. eapply reject_single; eauto.
    intros [_ [A _]]. simpl in A. congruence.
  - intros v Hv. apply validate_of_rejected_quad. eapply reject_single; eauto.
    intros [_ [A _]]. simpl in A. congruence.
  - intros o o0 HL HO HF. apply validate_of_rejected_quad. eapply reject_pair; eauto.
    + repeat split; auto.
    + simpl. discriminate.
    + intros pk pm [_ [[a [pa [A1 [A2 A3]]]] _]] [_ [[b [pb [B1 [B2 B3]]]] _]]. simpl in B1.
      rewrite HO in A1. inversion A1; inversion B1; subst. rewrite A2 in B2. inversion B2; subst.
      rewrite point_feqb_sym in A3. assert (point_feqb b a = true) by (eapply point_feqb_trans; eauto). congruence.
    + intros nk nm [_ [[a [pa [A1 [A2 A3]]]] _]] [_ [[b [pb [B1 [B2 B3]]]] _]]. simpl in B2.
      rewrite HO in A2. inversion A2; inversion B2; subst. rewrite A1 in B1. inversion B1; subst.
      rewrite point_feqb_sym in B3. assert (point_feqb pb pa = true) by (eapply point_feqb_trans; eauto). congruence.
  - intros c HL Hc. apply validate_of_rejected_quad. eapply reject_pair; eauto.
    + repeat split; auto.
    + simpl. intro E. assert (O := chain_ok_all_single _ _ HC0). clear O.
      (* the origin of m is present whenever there are two matrices: it takes part in a pair check *)
      destruct (quad_update_at t k m (with_corner c) HA HI) as [l1 [l2 [ES [HCs _]]]].
      assert (Hl := chain_ok_app _ _ _ HCs). simpl in Hl. destruct Hl as [_ [P C]].
      destruct (lastp None l1) as [[pk pm]|] eqn:EL.
      * apply pair_origin in P. tauto.
      * apply lastp_none in EL. subst l1. destruct l2 as [|[nk nm] r2].
        -- assert (length (sorted_matrices t) = length (t_matrices t)) by (symmetry; apply Permutation_length, sorted_perm).
           rewrite ES in H. simpl in H. lia.
        -- simpl in C. destruct C as [_ [P1 _]]. apply pair_origin in P1. tauto.
    + intros pk pm [_ [_ [A _]]] [_ [_ [B _]]]. simpl in B. congruence.
    + intros nk nm [_ [_ [A _]]] [_ [_ [B _]]]. simpl in B. congruence.
  - intros d Hd. apply validate_of_rejected_quad.
    destruct (quad_update_at t k m (with_cellSize d) HA HI) as [l1 [l2 [ES [HCs E]]]]. rewrite E.
    assert (Hl := chain_ok_app _ _ _ HCs). simpl in Hl. destruct Hl as [_ [P C]].
    assert (SS : check_single k (with_cellSize d m) = None) by (apply check_single_none; repeat split; auto).
    destruct Hd as [[pm [Hp Hr]]|[nm [Hn Hr]]].
    + apply in_sorted_iff in Hp. rewrite ES in Hp.
      rewrite (prev_is_last _ _ _ _ _ HCs Hp) in *.
      apply iqt_head_pair_fails.
      * repeat split; auto.
      * intros [_ [_ [_ [_ [_ R]]]]]. simpl in R. congruence.
      * apply pair_origin in P. tauto.
      * simpl. apply pair_origin in P. tauto.
    + apply in_sorted_iff in Hn. rewrite ES in Hn.
      destruct (next_is_head _ _ _ _ _ HCs Hn) as [r2 E2]. subst l2.
      simpl in C. destruct C as [SN [PN _]].
      assert (ON := pair_origin _ _ _ _ PN). simpl. rewrite SS.
      assert (Step : rejected (match check_single (k + 1) nm with
                               | Some c => Reject c
                               | None => match check_pair k (with_cellSize d m) (k + 1) nm with
                                         | Accept => iqt_loop (Some (k + 1, nm)) r2
                                         | v => v
                                         end
                               end)).
      { apply check_single_none in SN. rewrite SN.
        destruct (check_pair k (with_cellSize d m) (k + 1) nm) eqn:EP.
        - apply check_pair_accept in EP. destruct EP as [_ [_ [_ [_ [_ R]]]]]. simpl in R. congruence.
        - eexists; reflexivity.
        - exfalso. refine (check_pair_no_panic k (with_cellSize d m) (k + 1) nm _ _ EP); simpl; tauto. }
      destruct (lastp None l1) as [[pk pm]|].
      * destruct (check_pair pk pm k (with_cellSize d m)) eqn:EP.
        -- exact Step.
        -- eexists; reflexivity.
        -- exfalso. apply pair_origin in P. refine (check_pair_no_panic pk pm k (with_cellSize d m) _ _ EP); simpl; tauto.
      * destruct (Z.eqb_spec k 0) as [K0|K0]; [cbn [negb]; exact Step|contradiction].
  - intros nm Hn Hk.
    apply in_sorted_iff in HI. destruct (accepted_split _ _ _ HC0 HI) as [l1 [l2 [ES [H1 H2]]]].
    assert (HCs : chain_ok None (l1 ++ (k, m) :: l2)) by (rewrite <- ES; exact HC0).
    apply in_sorted_iff in Hn. rewrite ES in Hn.
    destruct (next_is_head _ _ _ _ _ HCs Hn) as [r2 E2]. subst l2.
    assert (Hl := chain_ok_app _ _ _ HCs). simpl in Hl. destruct Hl as [_ [P [SN [PN CN]]]].
    assert (EQ : isQuadTree (delete_tm t k) = iqt_loop (lastp None l1) ((k + 1, nm) :: r2)).
    { unfold isQuadTree. rewrite sorted_delete, ES, filter_split by assumption. eapply iqt_loop_prefix. exact HCs. }
    destruct (lastp None l1) as [[pk pm]|] eqn:EL.
    + apply validate_of_rejected_quad. rewrite EQ. destruct P as [EK _].
      simpl. apply check_single_none in SN. rewrite SN. unfold check_pair.
      destruct (Z.eqb_spec (k + 1) (pk + 1)); [lia|]. simpl. eexists; reflexivity.
    + apply lastp_none in EL. subst l1. destruct Hk as [Hk|[pm Hp]].
      * subst k. apply validate_of_rejected_quad. rewrite EQ. simpl lastp. apply iqt_first_nonzero. lia.
      * exfalso. apply in_sorted_iff in Hp. rewrite ES in Hp. simpl in Hp. destruct Hp as [Hp|Hp].
        -- inversion Hp; lia.
        -- specialize (H2 _ _ Hp). lia.
  - intros v vs. apply validate_of_rejected_quad. eapply reject_single; eauto.
    intros [_ [_ [_ A]]]. simpl in A. discriminate.
  - apply shift_rejected; auto. intro E. rewrite E in HI. contradiction.
  - apply validate_of_rejected_quad. apply shift_rejected; auto. intro E. rewrite E in HI. contradiction.
  - apply delete_zero_rejected; auto.
  - apply validate_of_rejected_quad. apply delete_zero_rejected; auto.
  - eapply remove_below_rejected; eauto.
  - apply validate_of_rejected_quad. eapply remove_below_rejected; eauto.
Qed.

(** ** What acceptance by the composite validation adds *)
Lemma validate_sound_lemma : forall t ids, validate t ids = Accept ->
  isQuadTree t = Accept /\ ids <> [] /\
  (forall i, In i ids -> exists m, find_tm i (t_matrices t) = Some m) /\
  exists root, find_tm 0 (t_matrices t) = Some root.
Proof.
  intros t ids H. split; [eapply validate_accept_quad; eauto|].
  unfold validate in H. destruct (isQuadTree t); try discriminate.
  destruct ids as [|i0 r]; [discriminate|]. split; [discriminate|].
  destruct (ids_exist t (i0 :: r)) eqn:EI; [|discriminate]. split.
  - intros i Hi. unfold ids_exist in EI. rewrite forallb_forall in EI. specialize (EI i Hi).
    destruct (find_tm i (t_matrices t)) as [m|]; [eauto|discriminate].
  - cbn [max_list] in H. unfold deviationVerdict in H.
    destruct (matrixBoundingBox t 0); try discriminate.
    destruct (find_tm 0 (t_matrices t)) as [root|]; [eauto|discriminate].
Qed.
