(** * C14 — pixel size of accepted sets, totality of the validation, the built-in sets by computation *)
From Coq Require Import ZArith QArith Qpower Qabs Qround String Ascii List Bool Lia Permutation.
From Texel Require Import Tms.Json Tms.Model Tms.ProofsC14.
From Texel.Gen Require Import ConstsGen TmsData.
Import ListNotations.
Open Scope Z_scope.
Open Scope list_scope.

(** ** acceptance => pixel size *)
Lemma two_neq_0 : ~ (inject_Z 2 == 0)%Q.
Proof. intro H. discriminate H. Qed.

Lemma level_pow2 : forall k z, 0 <= k -> level (2 ^ k) z = z + k + 4.
Proof.
  intros k z Hk. unfold level. rewrite Z.log2_pow2 by exact Hk.
  unfold gen_VectorTileInternalPixelResolution. change (Z.log2 16) with 4. reflexivity.
Qed.

Theorem accept_pixel_size_lemma : forall t root m z k,
  find_tm 0 (t_matrices t) = Some root ->
  tm_matrixWidth root = 1 -> 0 <= k -> tm_tileWidth root = 2 ^ k ->
  0 <= z -> find_tm z (t_matrices t) = Some m ->
  (dq (tm_cellSize m) * pow2Q z == dq (tm_cellSize root))%Q ->
  level (tm_tileWidth root) z = z + k + 4 /\
  exists p, pixelSize t z = Some p /\
            (p == fst (matrixSizeTM root) / pow2Q (z + k + 4))%Q /\
            (p == dq (tm_cellSize m) / inject_Z 16)%Q.
Proof.
  intros t root m z k Hroot Hw Hk Htw Hz Hm Hhalf.
  assert (L : level (tm_tileWidth root) z = z + k + 4) by (rewrite Htw; apply level_pow2; exact Hk).
  split; [exact L|].
  unfold pixelSize. rewrite Hroot. eexists. split; [reflexivity|]. rewrite L. split; [reflexivity|].
  unfold matrixSizeTM. cbn [fst]. rewrite Hw, Htw.
  unfold pow2Q. rewrite !Qpower_plus by exact two_neq_0.
  rewrite (Zpower_Qpower 2 k Hk). rewrite <- Hhalf. unfold pow2Q.
  change (inject_Z 2 ^ 4)%Q with (inject_Z 16).
  assert (N1 : ~ (inject_Z 2 ^ z == 0)%Q) by (apply Qpower_not_0, two_neq_0).
  assert (N2 : ~ (inject_Z 2 ^ k == 0)%Q) by (apply Qpower_not_0, two_neq_0).
  field; repeat split; auto; intro H; discriminate H.
Qed.

(** ** totality: the hypotheses under which the code as it stands does not panic *)
Lemma find_tm_in : forall k l m, find_tm k l = Some m -> In (k, m) l.
Proof.
  intros k l m. induction l as [|[k0 m0] r IH]; simpl; [discriminate|].
  destruct (Z.eqb_spec k k0); intro H.
  - inversion H; subst. left; reflexivity.
  - right; auto.
Qed.

Lemma axisOrder_no_panic : forall a, axisOrderIsLatLon a <> Panic /\ axisOrderIsLatLon a <> ErrorOrPanic.
Proof.
  intros [[|a [|b r]]|]; simpl; try (split; discriminate).
  destruct (_ || _); [split; discriminate|]. destruct (_ || _); split; discriminate.
Qed.

Definition latlon_body (avc : string * string * string) : outcome bool :=
  let '(a, v, code) := avc in
  if String.eqb a "OGC" && String.eqb v "1.3" && String.eqb code "CRS84" then Ok false
  else if negb (String.eqb (to_lower a) "epsg") then Error
  else match parse_uint code with
       | None => Error
       | Some n =>
           if existsb (Z.eqb n) gen_epsg_latlon_true then Ok true
           else if existsb (Z.eqb n) gen_epsg_latlon_false then Ok false
           else Error
       end.

Lemma isLatLon_body : forall c, isLatLon c = bind (crs_avc c) latlon_body.
Proof. reflexivity. Qed.

Lemma latlon_body_no_panic : forall avc, latlon_body avc <> Panic /\ latlon_body avc <> ErrorOrPanic.
Proof.
  intros [[a v] code]. unfold latlon_body.
  destruct (String.eqb a "OGC" && String.eqb v "1.3" && String.eqb code "CRS84"); [split; discriminate|].
  destruct (negb (String.eqb (to_lower a) "epsg")); [split; discriminate|].
  destruct (parse_uint code) as [n|]; [|split; discriminate].
  destruct (existsb (Z.eqb n) gen_epsg_latlon_true); [split; discriminate|].
  destruct (existsb (Z.eqb n) gen_epsg_latlon_false); split; discriminate.
Qed.

Lemma isLatLon_no_panic : forall c, (forall d r, c <> CrsRef d r) -> isLatLon c <> Panic /\ isLatLon c <> ErrorOrPanic.
Proof.
  intros c H. rewrite isLatLon_body. destruct c as [d u a|d w|d r]; cbn [crs_avc].
  - destruct (parse_crs_uri u); cbn [bind]; apply latlon_body_no_panic.
  - cbn [bind]. apply latlon_body_no_panic.
  - exfalso. eapply H; reflexivity.
Qed.

Lemma tms_swaps_no_panic : forall t, (forall d r, t_crs t <> CrsRef d r) -> tms_swaps t <> Panic /\ tms_swaps t <> ErrorOrPanic.
Proof.
  intros t H. unfold tms_swaps. destruct (isLatLon_no_panic _ H) as [A B].
  destruct (isLatLon (t_crs t)); try (split; discriminate); try contradiction; apply axisOrder_no_panic.
Qed.

Theorem validate_total_lemma : forall t ids,
  origins_present (t_matrices t) ->
  (forall d r, t_crs t <> CrsRef d r) ->
  (forall root d, find_tm 0 (t_matrices t) = Some root -> max_list ids = Some d ->
     1 <= tm_tileWidth root /\ 0 <= d /\ d + Z.log2 (tm_tileWidth root) + 4 < 64) ->
  validate t ids <> VPanic.
Proof.
  intros t ids HO HC HR. unfold validate.
  destruct (isQuadTree t) eqn:EQ.
  2: discriminate.
  2:{ exfalso. eapply isQuadTree_no_panic; eauto. }
  destruct ids as [|i0 r]; [discriminate|].
  destruct (ids_exist t (i0 :: r)); [|discriminate].
  destruct (max_list (i0 :: r)) as [d|] eqn:EM; [|discriminate].
  unfold deviationVerdict, matrixBoundingBox.
  destruct (find_tm 0 (t_matrices t)) as [root|] eqn:ER; [|discriminate].
  assert (HIn := find_tm_in _ _ _ ER).
  assert (HS : single_ok 0 root).
  { unfold isQuadTree in EQ. apply iqt_loop_accept in EQ. eapply chain_ok_all_single; [exact EQ|]. apply in_sorted_iff. exact HIn. }
  destruct HS as [_ [_ [_ HV]]]. rewrite HV.
  unfold originXY. destruct (tm_origin root) eqn:EO; [|exfalso; eapply HO; eauto].
  destruct (tms_swaps_no_panic t HC) as [A B].
  destruct (tms_swaps t); simpl; try discriminate; try contradiction.
  destruct (HR root d eq_refl eq_refl) as [H1 [H2 H3]].
  assert (L0 : 0 <= Z.log2 (tm_tileWidth root)) by apply Z.log2_nonneg.
  assert (LD : levelDiff (tm_tileWidth root) = Z.log2 (tm_tileWidth root) + 4).
  { unfold levelDiff, go_log2_uint, gen_VectorTileInternalPixelResolution.
    destruct (Z.leb_spec (tm_tileWidth root) 0); [lia|]. change (16 <=? 0) with false. cbn iota.
    change (Z.log2 16) with 4. unfold two64. apply Z.mod_small. lia. }
  assert (DL : deepestLevel (tm_tileWidth root) d = d + Z.log2 (tm_tileWidth root) + 4).
  { unfold deepestLevel. rewrite LD. unfold two64. rewrite (Z.mod_small d) by lia. rewrite Z.mod_small by lia. lia. }
  rewrite DL. unfold go_pow2. destruct (Z.ltb_spec (d + Z.log2 (tm_tileWidth root) + 4) 64); [|lia].
  assert (0 < 2 ^ (d + Z.log2 (tm_tileWidth root) + 4)) by (apply Z.pow_pos_nonneg; lia).
  destruct (Z.eqb_spec (2 ^ (d + Z.log2 (tm_tileWidth root) + 4)) 0); [lia|discriminate].
Qed.

(** regression (F12, repaired in /repo 29667b5): requested ids that are not tile matrices of the set, and an empty
    request, are errors -- they used to panic (slices.Max of an empty list; integer divide by zero at level >= 64) *)
Lemma validate_ids_regression : exists t, decodeTMS gen_doc_WebMercatorQuad = Ok t /\
  validate t [] = Reject 12 /\ validate t [52] = Reject 13 /\ validate t [-13] = Reject 13 /\ validate t [30] = Reject 13 /\
  validate t [24] = Accept.
Proof. eexists. split; [vm_compute; reflexivity|]. repeat split; vm_compute; reflexivity. Qed.

(** the level bound of the totality theorem cannot be dropped for arbitrary records: a 60-level quadtree (no built-in
    set has more than 25 levels; the CLI loads built-in sets only) still panics in FromTileMatrixSet *)
Definition deep_tm (z : Z) : tileMatrix :=
  MkTM (itoa z) "" "" None (Dec 1 0) (Dec (2 ^ (70 - z)) 0) CornerUnset (Some (Dec 0 0, Dec 0 0)) 256 256 (2 ^ z) (2 ^ z) None.
Definition deep_set : tms :=
  MkTMS "deep" "" "" None "" None "" None (CrsURI "" "http://www.opengis.net/def/crs/EPSG/0/3857" true)
        (map (fun n => (Z.of_nat n, deep_tm (Z.of_nat n))) (seq 0 60)).

Lemma validate_level_bound_needed : isQuadTree deep_set = Accept /\ validate deep_set [51] = Accept /\ validate deep_set [52] = VPanic.
Proof. repeat split; vm_compute; reflexivity. Qed.

(** ** The built-in sets, by computation over the regenerated documents *)
Definition builtin_names : list string :=
  ["CDB1GlobalGrid"; "CanadianNAD83_LCC"; "EuropeanETRS89_LAEAQuad"; "GNOSISGlobalGrid"; "LINZAntarticaMapTilegrid";
   "NZTM2000Quad"; "NetherlandsRDNewQuad"; "UPSAntarcticWGS84Quad"; "UPSArcticWGS84Quad"; "UTM31WGS84Quad";
   "WGS1984Quad"; "WebMercatorQuad"; "WorldCRS84Quad"; "WorldMercatorWGS84Quad"]%string.

(** the sets the real code accepts (observed by the harness on every run: correspondence C14) *)
Definition builtin_accepted : list string :=
  ["EuropeanETRS89_LAEAQuad"; "NZTM2000Quad"; "NetherlandsRDNewQuad"; "UPSAntarcticWGS84Quad"; "UPSArcticWGS84Quad";
   "WebMercatorQuad"; "WorldMercatorWGS84Quad"]%string.

Definition is_accept (v : verdict) : bool := match v with Accept => true | _ => false end.
Definition is_reject (v : verdict) : bool := match v with Reject _ => true | _ => false end.

(** relative tolerance used for "halving" and "pixel size = cell size / 16" on the built-in documents:
    1e-7 (their cell sizes are decimals that halve only to about 3.3e-8, see UPSArcticWGS84Quad) *)
Definition tol : Q := 1 # 10000000.
Definition Qclose (a b : Q) : bool := Qle_bool (Qabs (a - b)) (Qabs b * tol).

Definition level_ok (t : tms) (root : tileMatrix) (e : Z * tileMatrix) : bool :=
  let '(z, m) := e in
  (0 <=? z) && (tm_tileWidth m =? 256) && (tm_matrixWidth m =? 2 ^ z)
  && Qclose (dq (tm_cellSize m) * pow2Q z) (dq (tm_cellSize root))
  && match pixelSize t z with
     | Some p => Qclose p (dq (tm_cellSize m) / inject_Z 16)
     | None => false
     end
  && is_accept (validate t [z]).

Definition shape_ok (t : tms) : bool :=
  match find_tm 0 (t_matrices t) with
  | Some root =>
      (tm_matrixWidth root =? 1) && (tm_matrixHeight root =? 1) && (tm_tileWidth root =? 256)
      && forallb (level_ok t root) (t_matrices t)
      && is_accept (validate t (map fst (t_matrices t)))
  | None => false
  end.

Definition builtin_check (d : string * json) : bool :=
  match decodeTMS (snd d) with
  | Ok t => if existsb (String.eqb (fst d)) builtin_accepted then shape_ok t else is_reject (isQuadTree t)
  | _ => false
  end.

Lemma builtin_names_ok : map fst gen_tms_documents = builtin_names.
Proof. vm_compute. reflexivity. Qed.

Lemma builtin_check_all : forallb builtin_check gen_tms_documents = true.
Proof. vm_compute. reflexivity. Qed.

Lemma validate_of_reject : forall t ids n, isQuadTree t = Reject n -> validate t ids = Reject n.
Proof. intros t ids n H. unfold validate. rewrite H. reflexivity. Qed.

Lemma is_accept_true : forall v, is_accept v = true -> v = Accept.
Proof. intros [] H; try discriminate; reflexivity. Qed.

Lemma level_ok_spec : forall t root z m, level_ok t root (z, m) = true ->
  validate t [z] = Accept /\ 0 <= z /\ tm_tileWidth m = 256 /\ tm_matrixWidth m = 2 ^ z /\
  Qclose (dq (tm_cellSize m) * pow2Q z) (dq (tm_cellSize root)) = true /\
  exists p, pixelSize t z = Some p /\ Qclose p (dq (tm_cellSize m) / inject_Z 16) = true.
Proof.
  intros t root z m H. unfold level_ok in H.
  apply andb_true_iff in H. destruct H as [H A6].
  apply andb_true_iff in H. destruct H as [H A5].
  apply andb_true_iff in H. destruct H as [H A4].
  apply andb_true_iff in H. destruct H as [H A3].
  apply andb_true_iff in H. destruct H as [A1 A2].
  split; [apply is_accept_true; exact A6|].
  split; [apply Z.leb_le; exact A1|].
  split; [apply Z.eqb_eq; exact A2|].
  split; [apply Z.eqb_eq; exact A3|].
  split; [exact A4|].
  destruct (pixelSize t z) as [p|]; [|discriminate]. exists p. split; [reflexivity|exact A5].
Qed.

Theorem builtin_sets_lemma :
  map fst gen_tms_documents = builtin_names /\
  forall name doc, In (name, doc) gen_tms_documents ->
    exists t, decodeTMS doc = Ok t /\
      if existsb (String.eqb name) builtin_accepted
      then (* accepted, for every tile matrix of the set and for all of them together *)
           validate t (map fst (t_matrices t)) = Accept /\
           exists root, find_tm 0 (t_matrices t) = Some root /\
             tm_matrixWidth root = 1 /\ tm_matrixHeight root = 1 /\ tm_tileWidth root = 256 /\
             forall z m, In (z, m) (t_matrices t) ->
               validate t [z] = Accept /\ 0 <= z /\ tm_tileWidth m = 256 /\ tm_matrixWidth m = 2 ^ z /\
               Qclose (dq (tm_cellSize m) * pow2Q z) (dq (tm_cellSize root)) = true /\
               exists p, pixelSize t z = Some p /\ Qclose p (dq (tm_cellSize m) / inject_Z 16) = true
      else (* rejected with an error whatever tile matrices are requested *)
           exists n, forall ids, validate t ids = Reject n.
Proof.
  split; [exact builtin_names_ok|].
  intros name doc HI. assert (H := builtin_check_all). rewrite forallb_forall in H. specialize (H _ HI).
  unfold builtin_check in H. cbn [fst snd] in H.
  destruct (decodeTMS doc) as [t| | |]; try discriminate. exists t. split; [reflexivity|].
  destruct (existsb (String.eqb name) builtin_accepted).
  - unfold shape_ok in H. destruct (find_tm 0 (t_matrices t)) as [root|]; [|discriminate].
    apply andb_true_iff in H. destruct H as [H B5].
    apply andb_true_iff in H. destruct H as [H B4].
    apply andb_true_iff in H. destruct H as [H B3].
    apply andb_true_iff in H. destruct H as [B1 B2].
    split; [apply is_accept_true; exact B5|].
    exists root. split; [reflexivity|].
    split; [apply Z.eqb_eq; exact B1|]. split; [apply Z.eqb_eq; exact B2|]. split; [apply Z.eqb_eq; exact B3|].
    intros z m Hzm. rewrite forallb_forall in B4. apply level_ok_spec. apply B4. exact Hzm.
  - destruct (isQuadTree t) as [|n|] eqn:E; try discriminate. exists n. intros ids. apply validate_of_reject. exact E.
Qed.

(** the literals of the tolerance and the checks of validateTileMatrixSet, as regenerated from the source *)
Lemma source_shape_lemma :
  gen_quadtree_ratio_lo = Dec 199 (-2) /\ gen_quadtree_ratio_hi = Dec 201 (-2) /\
  gen_validate_calls = ["pointindex.IsQuadTree"; "len"; "errors.New"; "index tms.TileMatrices"; "fmt.Errorf";
                        "slices.Max"; "pointindex.DeviationStats"]%string.
Proof. repeat split; reflexivity. Qed.
