(** * Source tie (G2) of the LOADERS of tms20/tms20.go: the regenerated [gen_LoadEmbeddedTileMatrixSet] (with the
      package-level cache as its state) and [gen_LoadJSONTileMatrixSet] of gen/TmsLoadGen.v compute the hand-written
      [load_embedded_model] / [load_json_model] of Tms/ModelLoad.v -- for every file system, every id, and after EVERY
      history of earlier loads: the cache is transparent.

    Reading of the Go constructs: Tms/GoLoad.v.  The decoding inside a load is the regenerated
    [gen_TileMatrixSet_UnmarshalJSON], tied to [decodeTMS] by [TileMatrixSet_UnmarshalJSON_tie] (Tms/ProofsGenJson.v). *)
From Coq Require Import ZArith String List Bool.
From Texel Require Import Tms.Json Tms.Model Tms.GoJson Tms.GoLoad Tms.ModelLoad Tms.ProofsGenJson Tms.ProofsC16 Tms.ProofsC16d.
From Texel.Gen Require Import TmsData TmsJsonGen TmsLoadGen.
Import ListNotations.
Open Scope string_scope.

(** the model's reading of a result: the regenerated struct read back as the model's [tms] *)
Definition res_tms (r : outcome (loaded gen_TileMatrixSet)) : outcome tms :=
  bind r (fun l => tms_of (ld_value l)).

(** what the regenerated decoder makes of the file [name] *)
Definition fresh_decode (fs : fsys) (name : string) : outcome gen_TileMatrixSet :=
  match fs_find fs name with
  | Some (Doc j) => gen_TileMatrixSet_UnmarshalJSON gen_TileMatrixSet_zero j
  | Some NotJson => Error
  | None => Error
  end.

(** one call of LoadEmbeddedTileMatrixSet, written out: a hit returns the cached struct, a miss decodes the file and
    stores the result on success only *)
Definition load_step (fs : fsys) (st : cache gen_TileMatrixSet) (id : string) : loadres (cache gen_TileMatrixSet) gen_TileMatrixSet :=
  match cache_get st id with
  | (Some t, true) => (Ok (MkLoaded t (Some id)), st)
  | (None, true) => (Panic, st)
  | (_, false) =>
      match fresh_decode fs (embedded_file_name id) with
      | Ok t => (Ok (MkLoaded t (Some id)), (id, t) :: st)
      | Error => (Error, st)
      | Panic => (Panic, st)
      | ErrorOrPanic => (ErrorOrPanic, st)
      end
  end.

(** the states a history of loads can reach: every entry is what the decoder makes of the entry's OWN file *)
Definition cache_sound (fs : fsys) (st : cache gen_TileMatrixSet) : Prop :=
  forall id t, cache_get st id = (Some t, true) -> fresh_decode fs (embedded_file_name id) = Ok t.

(** the state after a history of loads from the empty cache *)
Definition after (fs : fsys) (history : list string) : cache gen_TileMatrixSet :=
  snd (run_loads (gen_LoadEmbeddedTileMatrixSet fs) [] history).

(** ** the regenerated function, characterised *)
Lemma fresh_part : forall fs (st : cache gen_TileMatrixSet) id,
  (let '(v_tmsJSON, v_err) := read_file fs (embedded_file_name id) in
   if v_err then ld_fail st
   else ld_bind (json_unmarshal gen_TileMatrixSet_UnmarshalJSON v_tmsJSON gen_TileMatrixSet_zero) st
          (fun '(v_tms, v_err) => if v_err then ld_fail st else ld_return (cache_set st id v_tms) v_tms (Some id)))
  = match fresh_decode fs (embedded_file_name id) with
    | Ok t => (Ok (MkLoaded t (Some id)), (id, t) :: st)
    | Error => (Error, st)
    | Panic => (Panic, st)
    | ErrorOrPanic => (ErrorOrPanic, st)
    end.
Proof.
  intros fs st id. unfold read_file, fresh_decode.
  destruct (fs_find fs (embedded_file_name id)) as [[|j]|]; cbv beta iota; try reflexivity.
  unfold json_unmarshal.
  destruct (gen_TileMatrixSet_UnmarshalJSON gen_TileMatrixSet_zero j); reflexivity.
Qed.

Lemma load_embedded_char : forall fs st id, gen_LoadEmbeddedTileMatrixSet fs st id = load_step fs st id.
Proof.
  intros fs st id. unfold gen_LoadEmbeddedTileMatrixSet, load_step.
  change (go_path_join2 "tilematrixsets" (id ++ gen_extJSON)) with (embedded_file_name id).
  destruct (cache_get st id) as [[t|] [|]]; cbv beta iota zeta; try reflexivity; apply fresh_part.
Qed.

Lemma cache_get_shape : forall {T : Type} (st : cache T) id,
  cache_get st id = (None, false) \/ exists t, cache_get st id = (Some t, true).
Proof.
  intros T st id. induction st as [|[n v] r IH]; cbn [cache_get]; [left; reflexivity|].
  destruct (String.eqb n id); [right; exists v; reflexivity|exact IH].
Qed.

Lemma cache_get_set_same : forall {T : Type} (st : cache T) id (x : T), cache_get (cache_set st id x) id = (Some x, true).
Proof. intros T st id x. unfold cache_set. cbn [cache_get]. rewrite String.eqb_refl. reflexivity. Qed.

(** ** one step: the result does not depend on the (sound) cache; soundness is kept *)
Lemma step_transparent : forall fs st id, cache_sound fs st ->
  fst (gen_LoadEmbeddedTileMatrixSet fs st id) = fst (gen_LoadEmbeddedTileMatrixSet fs [] id) /\
  cache_sound fs (snd (gen_LoadEmbeddedTileMatrixSet fs st id)).
Proof.
  intros fs st id HS. rewrite !load_embedded_char. unfold load_step. cbn [cache_get].
  destruct (cache_get_shape st id) as [E|[t E]]; rewrite E.
  - destruct (fresh_decode fs (embedded_file_name id)) as [t| | |] eqn:F; cbn [fst snd]; (split; [reflexivity|]); try exact HS.
    intros id' t' H. cbn [cache_get] in H. destruct (String.eqb id id') eqn:EQ.
    + apply String.eqb_eq in EQ. subst id'. inversion H. subst t'. exact F.
    + exact (HS id' t' H).
  - cbn [fst snd]. split; [|exact HS]. rewrite (HS id t E). reflexivity.
Qed.

(** ** CACHE TRANSPARENCY: every finite sequence of loads, one after the other *)
Lemma run_loads_transparent_from : forall fs ids st, cache_sound fs st ->
  fst (run_loads (gen_LoadEmbeddedTileMatrixSet fs) st ids) = map (fun id => fst (gen_LoadEmbeddedTileMatrixSet fs [] id)) ids /\
  cache_sound fs (snd (run_loads (gen_LoadEmbeddedTileMatrixSet fs) st ids)).
Proof.
  intros fs ids. induction ids as [|id r IH]; intros st HS; cbn [run_loads map].
  - split; [reflexivity|exact HS].
  - destruct (step_transparent fs st id HS) as [R1 S1].
    destruct (gen_LoadEmbeddedTileMatrixSet fs st id) as [a st1]. cbn [fst snd] in R1, S1.
    destruct (IH st1 S1) as [R2 S2].
    destruct (run_loads (gen_LoadEmbeddedTileMatrixSet fs) st1 r) as [l st2]. cbn [fst snd] in R2, S2 |- *.
    split; [rewrite R1, R2; reflexivity|exact S2].
Qed.

Lemma cache_sound_empty : forall fs, cache_sound fs [].
Proof. intros fs id t H. cbn [cache_get] in H. discriminate H. Qed.

Lemma after_sound : forall fs history, cache_sound fs (after fs history).
Proof. intros fs history. exact (proj2 (run_loads_transparent_from fs history [] (cache_sound_empty fs))). Qed.

(** ** the model *)
Lemma fresh_decode_model : forall fs name, bind (fresh_decode fs name) tms_of = load_model fs name.
Proof.
  intros fs name. unfold fresh_decode, load_model.
  destruct (fs_find fs name) as [[|j]|]; try reflexivity. apply TileMatrixSet_UnmarshalJSON_tie.
Qed.

Lemma load_empty_model : forall fs id, res_tms (fst (gen_LoadEmbeddedTileMatrixSet fs [] id)) = load_embedded_model fs id.
Proof.
  intros fs id. rewrite load_embedded_char. unfold load_step, load_embedded_model. cbn [cache_get].
  rewrite <- fresh_decode_model.
  destruct (fresh_decode fs (embedded_file_name id)); reflexivity.
Qed.

Lemma tms_of_ok_or_panic : forall t, (exists m, tms_of t = Ok m) \/ tms_of t = Panic.
Proof.
  intros t. unfold tms_of. destruct (gen_TileMatrixSet_CRS t); cbn [crs_of bind]; [right; reflexivity| | |]; left; eexists; reflexivity.
Qed.

Lemma load_model_value_or_error : forall fs name, load_model fs name <> Panic /\ load_model fs name <> ErrorOrPanic.
Proof.
  intros fs name. unfold load_model. destruct (fs_find fs name) as [[|j]|]; try (split; discriminate).
  apply ProofsC16d.decode_total_lemma.
Qed.

(** a struct the regenerated decoder returns IS a correctly decoded set *)
Lemma fresh_decode_ok : forall fs name t, fresh_decode fs name = Ok t ->
  exists m, tms_of t = Ok m /\ load_model fs name = Ok m.
Proof.
  intros fs name t F. pose proof (fresh_decode_model fs name) as M. rewrite F in M. cbn [bind] in M.
  destruct (tms_of_ok_or_panic t) as [[m E]|E].
  - exists m. split; [exact E|]. rewrite <- M. exact E.
  - exfalso. rewrite E in M. destruct (load_model_value_or_error fs name) as [NP _]. apply NP. symmetry. exact M.
Qed.

(** ** the theorems of Properties/C16.v *)

(** cache transparency: the results of every sequence of loads from the empty cache are, one by one, the results of
    loads from the empty cache, and those are the model's *)
Theorem load_embedded_transparent : forall fs ids,
  fst (run_loads (gen_LoadEmbeddedTileMatrixSet fs) [] ids) = map (fun id => fst (gen_LoadEmbeddedTileMatrixSet fs [] id)) ids /\
  map res_tms (fst (run_loads (gen_LoadEmbeddedTileMatrixSet fs) [] ids)) = map (load_embedded_model fs) ids.
Proof.
  intros fs ids. destruct (run_loads_transparent_from fs ids [] (cache_sound_empty fs)) as [R _].
  split; [exact R|]. rewrite R, map_map. apply map_ext. intros id. apply load_empty_model.
Qed.

(** the same for one more load after any history *)
Theorem load_embedded_after_history : forall fs history id,
  fst (gen_LoadEmbeddedTileMatrixSet fs (after fs history) id) = fst (gen_LoadEmbeddedTileMatrixSet fs [] id) /\
  res_tms (fst (gen_LoadEmbeddedTileMatrixSet fs (after fs history) id)) = load_embedded_model fs id.
Proof.
  intros fs history id. destruct (step_transparent fs _ id (after_sound fs history)) as [R _].
  split; [exact R|]. rewrite R. apply load_empty_model.
Qed.

(** a load that does not succeed leaves the cache as it was; one that succeeds leaves it as it was (a hit) or adds the
    one entry (id, the returned struct) *)
Theorem load_embedded_state : forall fs st id,
  match fst (gen_LoadEmbeddedTileMatrixSet fs st id) with
  | Ok l => snd (gen_LoadEmbeddedTileMatrixSet fs st id) = st \/ snd (gen_LoadEmbeddedTileMatrixSet fs st id) = (id, ld_value l) :: st
  | _ => snd (gen_LoadEmbeddedTileMatrixSet fs st id) = st
  end.
Proof.
  intros fs st id. rewrite load_embedded_char. unfold load_step.
  destruct (cache_get st id) as [[t|] [|]]; cbn [fst snd ld_value];
    try (left; reflexivity); try reflexivity;
    (destruct (fresh_decode fs (embedded_file_name id)); cbn [fst snd ld_value]; try reflexivity; right; reflexivity).
Qed.

(** the invariant: after every history the cache holds, at every id, a correctly decoded set: the decode of the file of
    THAT id *)
Theorem load_embedded_cache_invariant : forall fs history id t,
  cache_get (after fs history) id = (Some t, true) ->
  exists j m, fs_find fs (embedded_file_name id) = Some (Doc j) /\ decodeTMS j = Ok m /\ tms_of t = Ok m.
Proof.
  intros fs history id t H. pose proof (after_sound fs history id t H) as F.
  destruct (fresh_decode_ok fs _ t F) as [m [E M]].
  unfold fresh_decode in F. unfold load_model in M.
  destruct (fs_find fs (embedded_file_name id)) as [[|j]|]; try discriminate F.
  exists j, m. repeat split; assumption.
Qed.

(** no panic: a nil pointer is never dereferenced (the map's second result guards it) and the decoder is total *)
Theorem load_embedded_no_panic : forall fs history id,
  fst (gen_LoadEmbeddedTileMatrixSet fs (after fs history) id) <> Panic /\
  fst (gen_LoadEmbeddedTileMatrixSet fs (after fs history) id) <> ErrorOrPanic.
Proof.
  intros fs history id. destruct (load_embedded_after_history fs history id) as [_ M].
  destruct (load_model_value_or_error fs (embedded_file_name id)) as [NP NEP]. fold (load_embedded_model fs id) in NP, NEP.
  destruct (fst (gen_LoadEmbeddedTileMatrixSet fs (after fs history) id)); cbn [res_tms bind] in M;
    split; try discriminate; intros _; [apply NP|apply NEP]; symmetry; exact M.
Qed.

(** SHARING, as far as pure values can say it: every successful load -- the first one as well as a hit -- returns a
    SHALLOW copy of the struct the cache entry of that id points to after the call ... *)
Theorem load_embedded_result_shared : forall fs st id l st',
  gen_LoadEmbeddedTileMatrixSet fs st id = (Ok l, st') ->
  ld_shares l = Some id /\ cache_get st' id = (Some (ld_value l), true).
Proof.
  intros fs st id l st' H. rewrite load_embedded_char in H. unfold load_step in H.
  destruct (cache_get st id) as [[t|] [|]] eqn:E;
    try (inversion H; subst; cbn [ld_shares ld_value]; split; [reflexivity|exact E]);
    try discriminate H;
    (destruct (fresh_decode fs (embedded_file_name id)) as [t'| | |]; try discriminate H;
     inversion H; subst; cbn [ld_shares ld_value cache_get]; rewrite String.eqb_refl; split; reflexivity).
Qed.

(** ... and an entry, once made, stays: every later load of that id returns a copy of the SAME struct, so all callers
    of one id hold the same maps and slices *)
Theorem load_embedded_entry_persists : forall fs st id t id',
  cache_get st id = (Some t, true) -> cache_get (snd (gen_LoadEmbeddedTileMatrixSet fs st id')) id = (Some t, true).
Proof.
  intros fs st id t id' H. rewrite load_embedded_char. unfold load_step.
  destruct (cache_get st id') as [[t'|] [|]] eqn:E; cbn [snd]; try exact H;
    (destruct (fresh_decode fs (embedded_file_name id')) as [t''| | |]; cbn [snd]; try exact H;
     cbn [cache_get]; destruct (String.eqb id' id) eqn:EQ; [|exact H];
     apply String.eqb_eq in EQ; subst id'; rewrite H in E; discriminate E).
Qed.

(** ** LoadJSONTileMatrixSet: no state, a fresh value *)
Theorem load_json_tie : forall fs path,
  res_tms (fst (gen_LoadJSONTileMatrixSet fs tt path)) = load_json_model fs path /\
  (forall l, fst (gen_LoadJSONTileMatrixSet fs tt path) = Ok l -> ld_shares l = None) /\
  fst (gen_LoadJSONTileMatrixSet fs tt path) <> Panic /\ fst (gen_LoadJSONTileMatrixSet fs tt path) <> ErrorOrPanic.
Proof.
  intros fs path.
  assert (C : fst (gen_LoadJSONTileMatrixSet fs tt path) =
              match fresh_decode fs path with Ok t => Ok (MkLoaded t None) | Error => Error | Panic => Panic | ErrorOrPanic => ErrorOrPanic end).
  { unfold gen_LoadJSONTileMatrixSet, read_file, fresh_decode.
    destruct (fs_find fs path) as [[|j]|]; cbv beta iota zeta; try reflexivity.
    unfold json_unmarshal. destruct (gen_TileMatrixSet_UnmarshalJSON gen_TileMatrixSet_zero j); reflexivity. }
  rewrite C. unfold load_json_model. pose proof (fresh_decode_model fs path) as M.
  destruct (load_model_value_or_error fs path) as [NP NEP].
  destruct (fresh_decode fs path) as [t| | |]; cbn [bind] in M; cbn [res_tms bind ld_value].
  - split; [exact M|]. split; [intros l H; inversion H; reflexivity|]. split; discriminate.
  - split; [exact M|]. split; [intros l H; discriminate H|]. split; discriminate.
  - exfalso. apply NP. symmetry. exact M.
  - exfalso. apply NEP. symmetry. exact M.
Qed.

(** ** the built-in sets *)

(** the regenerated embedded file system holds, under the file name of each id, the document gen/TmsData.v has for it *)
Lemma embedded_fs_is_tmsdata : forall id doc, In (id, doc) gen_tms_documents ->
  fs_find gen_embedded_fs (embedded_file_name id) = Some (Doc doc).
Proof.
  intros id doc H. unfold gen_tms_documents in H. cbn [In] in H.
  repeat (destruct H as [H|H]; [inversion H; subst id doc; vm_compute; reflexivity|]).
  contradiction.
Qed.

Lemma embedded_ids_are_tmsdata : gen_embedded_ids = map fst gen_tms_documents /\
  List.length gen_embedded_fs = List.length gen_tms_documents.
Proof. split; reflexivity. Qed.

(** by computation over the regenerated list of ids: the regenerated loader, run on the regenerated file system from
    the empty cache, succeeds for every id, and so does the model *)
Definition builtin_load_ok (id : string) : bool :=
  match res_tms (fst (gen_LoadEmbeddedTileMatrixSet gen_embedded_fs [] id)), load_embedded_model gen_embedded_fs id with
  | Ok _, Ok _ => true
  | _, _ => false
  end.

Lemma builtin_sweep : forallb builtin_load_ok gen_embedded_ids = true.
Proof. vm_compute. reflexivity. Qed.

Theorem load_embedded_builtin : forall id, In id gen_embedded_ids -> forall history,
  exists t m,
    fst (gen_LoadEmbeddedTileMatrixSet gen_embedded_fs (after gen_embedded_fs history) id) = Ok (MkLoaded t (Some id)) /\
    tms_of t = Ok m /\ load_embedded_model gen_embedded_fs id = Ok m.
Proof.
  intros id HI history.
  pose proof (proj1 (forallb_forall _ _) builtin_sweep id HI) as B. unfold builtin_load_ok in B.
  destruct (load_embedded_after_history gen_embedded_fs history id) as [R M].
  pose proof (load_empty_model gen_embedded_fs id) as M0.
  rewrite R. rewrite load_embedded_char in B, M0 |- *. unfold load_step in B, M0 |- *. cbn [cache_get] in B, M0 |- *.
  destruct (fresh_decode gen_embedded_fs (embedded_file_name id)) as [t| | |]; cbn [fst res_tms bind ld_value] in B, M0 |- *;
    try discriminate B.
  destruct (tms_of t) as [m| | |] eqn:ET; try discriminate B.
  exists t, m. split; [reflexivity|]. split; [exact ET|]. symmetry. exact M0.
Qed.

(** ... and for every (name, document) of gen/TmsData.v the load returns the model's decode of THAT document *)
Theorem load_embedded_builtin_document : forall id doc, In (id, doc) gen_tms_documents -> forall history,
  exists t m,
    fst (gen_LoadEmbeddedTileMatrixSet gen_embedded_fs (after gen_embedded_fs history) id) = Ok (MkLoaded t (Some id)) /\
    tms_of t = Ok m /\ decodeTMS doc = Ok m.
Proof.
  intros id doc HI history.
  assert (HI' : In id gen_embedded_ids).
  { rewrite (proj1 embedded_ids_are_tmsdata). change id with (fst (id, doc)). apply in_map. exact HI. }
  destruct (load_embedded_builtin id HI' history) as [t [m [A [B C]]]].
  exists t, m. split; [exact A|]. split; [exact B|].
  unfold load_embedded_model, load_model in C. rewrite (embedded_fs_is_tmsdata id doc HI) in C. exact C.
Qed.

(** the two documents whose "id" MEMBER is the same text: the cache is keyed by the id the caller passes (the file name),
    so after every history each of the two names gives the set of its own file; the two sets differ *)
Theorem same_id_member_no_interference :
  exists t1 t2,
    (forall history, fst (gen_LoadEmbeddedTileMatrixSet gen_embedded_fs (after gen_embedded_fs history) "WGS1984Quad")
                     = Ok (MkLoaded t1 (Some "WGS1984Quad"))) /\
    (forall history, fst (gen_LoadEmbeddedTileMatrixSet gen_embedded_fs (after gen_embedded_fs history) "WorldCRS84Quad")
                     = Ok (MkLoaded t2 (Some "WorldCRS84Quad"))) /\
    gen_TileMatrixSet_ID t1 = "WorldCRS84Quad" /\ gen_TileMatrixSet_ID t2 = "WorldCRS84Quad" /\
    gen_TileMatrixSet_Title t1 = "EPSG:4326 for the World" /\ gen_TileMatrixSet_Title t2 = "CRS84 for the World" /\
    t1 <> t2.
Proof.
  assert (I1 : In "WGS1984Quad" gen_embedded_ids) by (vm_compute; tauto).
  assert (I2 : In "WorldCRS84Quad" gen_embedded_ids) by (vm_compute; tauto).
  destruct (load_embedded_builtin _ I1 []) as [t1 [m1 [A1 _]]].
  destruct (load_embedded_builtin _ I2 []) as [t2 [m2 [A2 _]]].
  exists t1, t2.
  assert (H1 : forall history, fst (gen_LoadEmbeddedTileMatrixSet gen_embedded_fs (after gen_embedded_fs history) "WGS1984Quad")
                               = Ok (MkLoaded t1 (Some "WGS1984Quad"))).
  { intros history. rewrite (proj1 (load_embedded_after_history _ history _)).
    rewrite <- (proj1 (load_embedded_after_history _ [] _)). exact A1. }
  assert (H2 : forall history, fst (gen_LoadEmbeddedTileMatrixSet gen_embedded_fs (after gen_embedded_fs history) "WorldCRS84Quad")
                               = Ok (MkLoaded t2 (Some "WorldCRS84Quad"))).
  { intros history. rewrite (proj1 (load_embedded_after_history _ history _)).
    rewrite <- (proj1 (load_embedded_after_history _ [] _)). exact A2. }
  split; [exact H1|]. split; [exact H2|].
  assert (X1 : match fst (gen_LoadEmbeddedTileMatrixSet gen_embedded_fs (after gen_embedded_fs []) "WGS1984Quad") with
               | Ok l => gen_TileMatrixSet_ID (ld_value l) = "WorldCRS84Quad" /\ gen_TileMatrixSet_Title (ld_value l) = "EPSG:4326 for the World"
               | _ => False end) by (vm_compute; split; reflexivity).
  assert (X2 : match fst (gen_LoadEmbeddedTileMatrixSet gen_embedded_fs (after gen_embedded_fs []) "WorldCRS84Quad") with
               | Ok l => gen_TileMatrixSet_ID (ld_value l) = "WorldCRS84Quad" /\ gen_TileMatrixSet_Title (ld_value l) = "CRS84 for the World"
               | _ => False end) by (vm_compute; split; reflexivity).
  rewrite A1 in X1. rewrite A2 in X2. cbn [ld_value] in X1, X2. destruct X1 as [X1 T1]. destruct X2 as [X2 T2].
  repeat (split; [assumption|]).
  intros E. rewrite E, T2 in T1. discriminate T1.
Qed.

(** the fields a shallow copy shares (regenerated from the struct declaration) *)
Lemma reference_fields_now :
  gen_TileMatrixSet_reference_fields = ["Keywords"; "OrderedAxes"; "CRS"; "BoundingBox"; "TileMatrices"].
Proof. reflexivity. Qed.

(** ** the regenerated code runs; the hypotheses are satisfiable *)
Lemma load_runs :
  (* a file system with a good document, bytes that are not JSON, and a document that does not decode *)
  let fs := [("tilematrixsets/a.json", Doc gen_doc_NetherlandsRDNewQuad); ("tilematrixsets/b.json", NotJson);
             ("tilematrixsets/c.json", Doc (JObj []))] in
  let r := run_loads (gen_LoadEmbeddedTileMatrixSet fs) [] ["b"; "a"; "zz"; "c"; "a"; "./a"; "x/../a"; "../a"] in
  map (fun o => match o with Ok _ => 0%nat | Error => 1%nat | _ => 2%nat end) (fst r) = [1; 0; 1; 1; 0; 0; 0; 1]%nat /\
  map fst (snd r) = ["x/../a"; "./a"; "a"] /\
  nth_error (fst r) 1 = nth_error (fst r) 4 /\
  embedded_file_name "x/../a" = "tilematrixsets/a.json" /\ embedded_file_name "../a" = "a.json" /\
  embedded_file_name "/a" = "tilematrixsets/a.json".
Proof. vm_compute. repeat split; reflexivity. Qed.
