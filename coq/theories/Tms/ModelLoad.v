(** * Hand-written model of the two loaders of tms20/tms20.go.  Definitions only.

    What a load IS, independent of any cache: look the file up, decode the document with the model's [decodeTMS]
    (Tms/Model.v).  The regenerated loaders of gen/TmsLoadGen.v are proved to compute this for every file system, every id
    and after every history of earlier loads (Tms/ProofsGenLoad.v, Properties/C16.v: C16_source_tie_load_embedded.., C16_source_tie_load_json).

    The directory and the extension are written out here by hand; the regenerated function reads them from the source
    (the literal of path.Join, the constant extJSON), so a change of either breaks the tie. *)
From Coq Require Import String List.
From Texel Require Import Tms.Json Tms.Model Tms.GoLoad.
Import ListNotations.
Open Scope string_scope.

(** the name of the file an id denotes inside the embedded file system: path.Join("tilematrixsets", id + ".json") *)
Definition embedded_file_name (id : string) : string := go_path_join2 "tilematrixsets" (id ++ ".json").

(** a load of the file [name]: an unknown name, bytes that are not JSON and a document that does not decode are errors *)
Definition load_model (fs : fsys) (name : string) : outcome tms :=
  match fs_find fs name with
  | Some (Doc j) => decodeTMS j
  | Some NotJson => Error
  | None => Error
  end.

(** tms20.LoadEmbeddedTileMatrixSet(id), whatever was loaded before *)
Definition load_embedded_model (fs : fsys) (id : string) : outcome tms := load_model fs (embedded_file_name id).

(** tms20.LoadJSONTileMatrixSet(path) *)
Definition load_json_model (fs : fsys) (path : string) : outcome tms := load_model fs path.
