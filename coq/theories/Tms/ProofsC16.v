(** * C16 — decode / encode of tile matrix set documents: regressions for the repaired defects F6b / F6c
      and the built-in documents by computation *)
From Coq Require Import ZArith QArith String Ascii List Bool Lia.
From Texel Require Import Tms.Json Tms.Model.
From Texel.Gen Require Import ConstsGen TmsData.
Import ListNotations.
Open Scope Z_scope.
Open Scope list_scope.
Open Scope string_scope.

(** a small well-formed document, with holes for the members the witnesses vary *)
Definition tm_with (tileWidth : json) (origin : json) (extra : list (string * json)) : json :=
  JObj ([("id", JStr "0"); ("scaleDenominator", jn 1 0); ("cellSize", jn 2 0); ("pointOfOrigin", origin);
         ("tileWidth", tileWidth); ("tileHeight", jn 256 0); ("matrixWidth", jn 1 0); ("matrixHeight", jn 1 0)] ++ extra).

Definition doc_with (tm : json) : json :=
  JObj [("crs", JStr "http://www.opengis.net/def/crs/EPSG/0/28992"); ("tileMatrices", JArr [tm])].

Definition doc_ok : json := doc_with (tm_with (jn 256 0) (JArr [jn 1 0; jn 2 0]) []).
Definition doc_origin3 : json := doc_with (tm_with (jn 256 0) (JArr [jn 1 0; jn 2 0; jn 3 0]) []).
Definition doc_origin1 : json := doc_with (tm_with (jn 256 0) (JArr [jn 1 0]) []).
Definition doc_negative : json := doc_with (tm_with (jn (-1) 0) (JArr [jn 1 0; jn 2 0]) []).
Definition doc_fraction : json := doc_with (tm_with (jn 2565 (-1)) (JArr [jn 1 0; jn 2 0]) []).
Definition doc_empty_kw : json := doc_with (tm_with (jn 256 0) (JArr [jn 1 0; jn 2 0]) [("keywords", JArr []); ("variableMatrixWidths", JArr [])]).

Definition the_tm (t : tms) : option tileMatrix := find_tm 0 (t_matrices t).

(** regression F6c (repaired in /repo 909171c): a pointOfOrigin with 3 elements used to panic inside the decoding
    library, one with 1 element used to be accepted with the missing coordinate read as 0; both are errors now, and
    so are null, non-number elements and non-arrays *)
Definition doc_origin_null : json := doc_with (tm_with (jn 256 0) JNull []).
Definition doc_origin_str : json := doc_with (tm_with (jn 256 0) (JArr [JStr "a"; jn 2 0]) []).
Definition doc_bbox3 : json :=
  JObj [("crs", JStr "http://www.opengis.net/def/crs/EPSG/0/28992");
        ("boundingBox", JObj [("lowerLeft", JArr [jn 1 0; jn 2 0; jn 3 0]); ("upperRight", JArr [jn 3 0; jn 4 0]);
                              ("crs", JStr "urn:ogc:def:crs:EPSG::28992")]);
        ("tileMatrices", JArr [tm_with (jn 256 0) (JArr [jn 1 0; jn 2 0]) []])].

Lemma regression_F6c : decodeTMS doc_origin3 = Error /\ decodeTMS doc_origin1 = Error /\
  decodeTMS doc_origin_null = Error /\ decodeTMS doc_origin_str = Error /\ decodeTMS doc_bbox3 = Error /\
  exists t, decodeTMS doc_ok = Ok t.
Proof. repeat split; try (vm_compute; reflexivity). eexists. vm_compute. reflexivity. Qed.

(** regression F6b (repaired in /repo 4bfd034): tileWidth -1 used to be accepted as 2^64 - 1 (and came back as 2^63
    after a round trip), 256.5 used to be truncated to 256; both are errors now, and so are 2^53 and a negative or
    fractional member of variableMatrixWidths; 0 is an error as before; 2^53 - 1 is accepted *)
Definition doc_huge : json := doc_with (tm_with (jn 9007199254740992 0) (JArr [jn 1 0; jn 2 0]) []).
Definition doc_big_ok : json := doc_with (tm_with (jn 9007199254740991 0) (JArr [jn 1 0; jn 2 0]) []).
Definition doc_zero : json := doc_with (tm_with (jn 0 0) (JArr [jn 1 0; jn 2 0]) []).
Definition doc_vmw_neg : json :=
  doc_with (tm_with (jn 256 0) (JArr [jn 1 0; jn 2 0])
                    [("variableMatrixWidths", JArr [JObj [("coalesce", jn 2 0); ("minTileRow", jn (-1) 0); ("maxTileRow", jn 0 0)]])]).
Definition doc_vmw_frac : json :=
  doc_with (tm_with (jn 256 0) (JArr [jn 1 0; jn 2 0])
                    [("variableMatrixWidths", JArr [JObj [("coalesce", jn 25 (-1)); ("minTileRow", jn 0 0); ("maxTileRow", jn 0 0)]])]).

Lemma regression_F6b : decodeTMS doc_negative = Error /\ decodeTMS doc_fraction = Error /\ decodeTMS doc_huge = Error /\
  decodeTMS doc_zero = Error /\ decodeTMS doc_vmw_neg = Error /\ decodeTMS doc_vmw_frac = Error /\
  exists t m, decodeTMS doc_big_ok = Ok t /\ the_tm t = Some m /\ tm_tileWidth m = 2 ^ 53 - 1.
Proof. repeat split; try (vm_compute; reflexivity). eexists. eexists. split; [vm_compute; reflexivity|]. split; vm_compute; reflexivity. Qed.

(** empty arrays under omitempty members decode to empty non-nil slices, are not printed, and come back nil:
    the two values differ only in nil vs. empty, their encodings do not *)
Lemma empty_slice_not_stable : exists t t' m m',
  decodeTMS doc_empty_kw = Ok t /\ decodeTMS (encodeTMS t) = Ok t' /\
  the_tm t = Some m /\ the_tm t' = Some m' /\
  tm_keywords m = Some [] /\ tm_keywords m' = None /\ tm_vmw m = Some [] /\ tm_vmw m' = None /\
  t <> t' /\ encodeTMS t' = encodeTMS t.
Proof.
  eexists. eexists. eexists. eexists. split; [vm_compute; reflexivity|]. split; [vm_compute; reflexivity|].
  split; [vm_compute; reflexivity|]. split; [vm_compute; reflexivity|].
  split; [vm_compute; reflexivity|]. split; [vm_compute; reflexivity|].
  split; [vm_compute; reflexivity|]. split; [vm_compute; reflexivity|].
  split; [intro H; discriminate H|vm_compute; reflexivity].
Qed.

(** ** The built-in documents, by computation *)
(** semantic equality of two documents: objects as maps (keys sorted, last duplicate wins), numbers by float64 image *)
Definition sem_eqb (a b : json) : bool := json_feqb (canon a) (canon b).

Definition roundtrip_ok (doc : json) : Prop :=
  exists t, decodeTMS doc = Ok t /\ decodeTMS (encodeTMS t) = Ok t /\ sem_eqb (encodeTMS t) doc = true.

Lemma builtin_roundtrip_lemma : Forall (fun d => roundtrip_ok (snd d)) gen_tms_documents.
Proof.
  unfold gen_tms_documents.
  repeat (constructor; [cbn [snd]; eexists; split; [vm_compute; reflexivity|split; vm_compute; reflexivity]|]).
  constructor.
Qed.

Lemma testdoc_roundtrip_lemma : Forall (fun d => roundtrip_ok (snd d)) gen_tms_test_documents.
Proof.
  unfold gen_tms_test_documents.
  repeat (constructor; [cbn [snd]; eexists; split; [vm_compute; reflexivity|split; vm_compute; reflexivity]|]).
  constructor.
Qed.
