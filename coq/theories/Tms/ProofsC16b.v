(** * C16 — the general round trip: decode (encode v) = normalised v for every decoded v *)
From Coq Require Import ZArith QArith String Ascii List Bool Lia.
From Texel Require Import Tms.Json Tms.Model.
From Texel.Gen Require Import ConstsGen TmsData.
Import ListNotations.
Open Scope string_scope.
Open Scope Z_scope.
Open Scope list_scope.

(** ** Objects printed from a field list *)
Fixpoint assoc (k : string) (l : fields) : option (option json) :=
  match l with
  | [] => None
  | (k', v) :: r => if String.eqb k k' then Some v else assoc k r
  end.

Fixpoint nodupb (l : list string) : bool :=
  match l with
  | [] => true
  | k :: r => negb (existsb (String.eqb k) r) && nodupb r
  end.

Lemma lookup_last_app : forall k a b,
  lookup_last k (a ++ b) = match lookup_last k b with Some v => Some v | None => lookup_last k a end.
Proof.
  intros k a b. induction a as [|[k' v] r IH]; simpl.
  - destruct (lookup_last k b); reflexivity.
  - rewrite IH. destruct (lookup_last k b); reflexivity.
Qed.

Lemma collapse_cons : forall k v r,
  collapse ((k, v) :: r) = match v with Some x => [(k, x)] | None => [] end ++ collapse r.
Proof. reflexivity. Qed.

Lemma lookup_last_collapse_absent : forall k l, existsb (String.eqb k) (map fst l) = false -> lookup_last k (collapse l) = None.
Proof.
  intros k l. induction l as [|[k' v] r IH]; intro H.
  - reflexivity.
  - cbn [map fst existsb] in H. apply orb_false_iff in H. destruct H as [H1 H2].
    rewrite collapse_cons, lookup_last_app, (IH H2).
    destruct v; simpl; auto. rewrite H1. reflexivity.
Qed.

Lemma lookup_last_collapse : forall k l, nodupb (map fst l) = true ->
  lookup_last k (collapse l) = match assoc k l with Some (Some v) => Some v | _ => None end.
Proof.
  intros k l. induction l as [|[k' v] r IH]; intro H.
  - reflexivity.
  - cbn [map fst nodupb] in H. apply andb_true_iff in H. destruct H as [H1 H2]. apply negb_true_iff in H1.
    rewrite collapse_cons, lookup_last_app. cbn [assoc].
    destruct (String.eqb k k') eqn:E.
    + apply String.eqb_eq in E. subst k'. rewrite (lookup_last_collapse_absent k r H1).
      destruct v; simpl; auto. rewrite String.eqb_refl. reflexivity.
    + rewrite (IH H2). destruct (assoc k r) as [[w|]|]; auto; destruct v; simpl; auto; rewrite E; reflexivity.
Qed.

(** ** Normalisation: nil and empty slices are the same value *)
Definition norm_strs (l : option (list string)) : option (list string) := match l with Some [] => None | x => x end.
Definition norm_vmws (l : option (list vmw)) : option (list vmw) := match l with Some [] => None | x => x end.

Definition norm_tm (m : tileMatrix) : tileMatrix :=
  MkTM (tm_id m) (tm_title m) (tm_description m) (norm_strs (tm_keywords m)) (tm_scaleDenominator m) (tm_cellSize m)
       (tm_corner m) (tm_origin m) (tm_tileWidth m) (tm_tileHeight m) (tm_matrixWidth m) (tm_matrixHeight m)
       (norm_vmws (tm_vmw m)).

Definition norm_bbox (b : bbox) : bbox :=
  MkBB (bb_lowerLeft b) (bb_upperRight b) (norm_strs (bb_orderedAxes b)) (bb_crs b).

Definition norm_tms (t : tms) : tms :=
  MkTMS (t_id t) (t_title t) (t_description t) (norm_strs (t_keywords t)) (t_uri t) (t_orderedAxes t) (t_wkss t)
        (option_map norm_bbox (t_bbox t)) (t_crs t) (map (fun e => (fst e, norm_tm (snd e))) (t_matrices t)).

Lemma ostrs_norm : forall l, ostrs (norm_strs l) = ostrs l.
Proof. intros [[|x r]|]; reflexivity. Qed.
Lemma ovmws_norm : forall l, ovmws (norm_vmws l) = ovmws l.
Proof. intros [[|x r]|]; reflexivity. Qed.
Lemma norm_strs_idem : forall l, norm_strs (norm_strs l) = norm_strs l.
Proof. intros [[|x r]|]; reflexivity. Qed.
Lemma norm_vmws_idem : forall l, norm_vmws (norm_vmws l) = norm_vmws l.
Proof. intros [[|x r]|]; reflexivity. Qed.

Lemma tm_fields_norm : forall m, tm_fields (norm_tm m) = tm_fields m.
Proof. intros m. unfold tm_fields, norm_tm. cbn [tm_id tm_title tm_description tm_keywords tm_scaleDenominator tm_cellSize tm_corner tm_origin tm_tileWidth tm_tileHeight tm_matrixWidth tm_matrixHeight tm_vmw]. rewrite ostrs_norm, ovmws_norm. reflexivity. Qed.

Lemma encodeTM_norm : forall m, encodeTM (norm_tm m) = encodeTM m.
Proof. intros m. unfold encodeTM. rewrite tm_fields_norm. reflexivity. Qed.

Lemma encodeBBox_norm : forall b, encodeBBox (norm_bbox b) = encodeBBox b.
Proof. intros b. unfold encodeBBox, bbox_fields, norm_bbox. cbn [bb_lowerLeft bb_upperRight bb_orderedAxes bb_crs]. rewrite ostrs_norm. reflexivity. Qed.

Lemma id_key_norm : forall m, id_key (norm_tm m) = id_key m.
Proof. reflexivity. Qed.

Lemma insert_by_id_norm : forall m l, insert_by_id (norm_tm m) (map norm_tm l) = map norm_tm (insert_by_id m l).
Proof.
  intros m l. induction l as [|m' r IH]; simpl; auto.
  rewrite !id_key_norm. destruct (id_key m <? id_key m'); simpl; auto. rewrite IH. reflexivity.
Qed.

Lemma sort_by_id_norm : forall l, sort_by_id (map norm_tm l) = map norm_tm (sort_by_id l).
Proof. induction l as [|m r IH]; simpl; auto. unfold sort_by_id in *. simpl. rewrite IH. apply insert_by_id_norm. Qed.

(** the encoding does not see the normalisation: encode is stable *)
Theorem encode_norm : forall t, encodeTMS (norm_tms t) = encodeTMS t.
Proof.
  intros t. unfold encodeTMS, tms_fields, norm_tms.
  cbn [t_id t_title t_description t_keywords t_uri t_orderedAxes t_wkss t_bbox t_crs t_matrices].
  rewrite ostrs_norm.
  assert (E1 : match option_map norm_bbox (t_bbox t) with None => None | Some b => Some (encodeBBox b) end
               = match t_bbox t with None => None | Some b => Some (encodeBBox b) end).
  { destruct (t_bbox t); simpl; auto. rewrite encodeBBox_norm. reflexivity. }
  rewrite E1.
  assert (E2 : map encodeTM (sort_by_id (map snd (map (fun e : Z * tileMatrix => (fst e, norm_tm (snd e))) (t_matrices t))))
               = map encodeTM (sort_by_id (map snd (t_matrices t)))).
  { rewrite map_map. cbn [snd]. rewrite <- (map_map snd norm_tm). rewrite sort_by_id_norm, map_map.
    apply map_ext. intros m. apply encodeTM_norm. }
  rewrite E2. reflexivity.
Qed.

Theorem norm_idem : forall t, norm_tms (norm_tms t) = norm_tms t.
Proof.
  intros t. unfold norm_tms.
  cbn [t_id t_title t_description t_keywords t_uri t_orderedAxes t_wkss t_bbox t_crs t_matrices].
  rewrite norm_strs_idem. f_equal.
  - destruct (t_bbox t) as [b|]; simpl; auto. unfold norm_bbox. cbn [bb_lowerLeft bb_upperRight bb_orderedAxes bb_crs].
    rewrite norm_strs_idem. reflexivity.
  - rewrite map_map. apply map_ext. intros [k m]. cbn [fst snd]. unfold norm_tm.
    cbn [tm_id tm_title tm_description tm_keywords tm_scaleDenominator tm_cellSize tm_corner tm_origin tm_tileWidth tm_tileHeight tm_matrixWidth tm_matrixHeight tm_vmw].
    rewrite norm_strs_idem, norm_vmws_idem. reflexivity.
Qed.

(** ** One tile matrix *)
Definition finite (d : dec) : Prop := exists q, f64_dec d = FNum q.
(** an unsigned member that survives printing and reading back (every value below 2^53 does; a wrapped negative
    such as 2^64 - 1 does not: F6b) *)
Definition uint_stable (n : Z) : Prop := conv_uint (jint n) = CVal n.
Definition vmw_stable (v : vmw) : Prop :=
  uint_stable (v_coalesce v) /\ uint_stable (v_minTileRow v) /\ uint_stable (v_maxTileRow v).

Definition tm_wf (m : tileMatrix) : Prop :=
  tm_valid m = true /\ finite (tm_scaleDenominator m) /\ finite (tm_cellSize m) /\
  exists p, tm_origin m = Some p /\ finite (fst p) /\ finite (snd p).

Definition tm_stable (m : tileMatrix) : Prop :=
  uint_stable (tm_tileWidth m) /\ uint_stable (tm_tileHeight m) /\
  uint_stable (tm_matrixWidth m) /\ uint_stable (tm_matrixHeight m) /\
  (forall l, tm_vmw m = Some l -> Forall vmw_stable l) /\
  uints_ok (collapse (tm_fields m)) = true.          (* the printed numbers pass checkUnsignedIntegers *)

Ltac look :=
  unfold member; rewrite lookup_last_collapse by (vm_compute; reflexivity);
  cbv [assoc tm_fields String.eqb Ascii.eqb Bool.eqb].

Lemma strs_of_map : forall l, strs_of (map JStr l) = Some l.
Proof. induction l as [|s r IH]; simpl; auto. rewrite IH. reflexivity. Qed.

Lemma conv_float_finite : forall d, finite d -> conv_float (JNum d) = CVal d.
Proof. intros d [q H]. simpl. rewrite H. reflexivity. Qed.

Lemma conv_point_jpoint : forall p, finite (fst p) -> finite (snd p) -> conv_point (jpoint p) = CVal p.
Proof.
  intros [a b] [qa Ha] [qb Hb]. cbn [fst snd] in *. unfold jpoint, conv_point. cbn [fst snd]. rewrite Ha, Hb. reflexivity.
Qed.

Lemma uint_member_stable : forall k o n, lookup_last k o = Some (jint n) -> uint_stable n -> uint_member k o = Some n.
Proof. intros k o n H S. unfold uint_member. rewrite H. unfold uint_stable in S. rewrite S. reflexivity. Qed.

Lemma vmw_of_encode : forall v, vmw_stable v -> vmw_of (encodeVmw v) = Some v.
Proof.
  intros [c a b] [S1 [S2 S3]]. simpl in *. unfold vmw_of, encodeVmw. cbn [v_coalesce v_minTileRow v_maxTileRow].
  rewrite (uint_member_stable "coalesce" _ c) by (auto; reflexivity).
  rewrite (uint_member_stable "minTileRow" _ a) by (auto; reflexivity).
  rewrite (uint_member_stable "maxTileRow" _ b) by (auto; reflexivity).
  reflexivity.
Qed.

Lemma vmws_of_encode : forall l, Forall vmw_stable l -> vmws_of (map encodeVmw l) = Some l.
Proof.
  induction l as [|v r IH]; intro H; cbn [map vmws_of]; auto.
  inversion H; subst. rewrite vmw_of_encode by assumption. rewrite IH by assumption. reflexivity.
Qed.

Lemma m_id : forall m, member "id" conv_str (collapse (tm_fields m)) = CVal (tm_id m).
Proof. intros. look. reflexivity. Qed.

Lemma m_ostr : forall s, match ostr s with Some v => conv_str v | None => CNil end = if String.eqb s "" then CNil else CVal s.
Proof. intros s. unfold ostr. destruct (String.eqb s ""); reflexivity. Qed.

Lemma m_title : forall m, member "title" conv_str (collapse (tm_fields m)) = if String.eqb (tm_title m) "" then CNil else CVal (tm_title m).
Proof. intros. look. rewrite <- m_ostr. destruct (ostr (tm_title m)); reflexivity. Qed.

Lemma m_desc : forall m, member "description" conv_str (collapse (tm_fields m)) = if String.eqb (tm_description m) "" then CNil else CVal (tm_description m).
Proof. intros. look. rewrite <- m_ostr. destruct (ostr (tm_description m)); reflexivity. Qed.

Lemma m_kw : forall m, member "keywords" conv_strs (collapse (tm_fields m)) =
  match norm_strs (tm_keywords m) with Some l => CVal l | None => CNil end.
Proof.
  intros. look. destruct (tm_keywords m) as [[|x r]|]; simpl; auto.
  rewrite strs_of_map. reflexivity.
Qed.

Lemma m_sd : forall m, finite (tm_scaleDenominator m) -> member "scaleDenominator" conv_float (collapse (tm_fields m)) = CVal (tm_scaleDenominator m).
Proof. intros m H. look. apply conv_float_finite; exact H. Qed.

Lemma m_cs : forall m, finite (tm_cellSize m) -> member "cellSize" conv_float (collapse (tm_fields m)) = CVal (tm_cellSize m).
Proof. intros m H. look. apply conv_float_finite; exact H. Qed.

Lemma m_co : forall m, member "cornerOfOrigin" conv_corner (collapse (tm_fields m)) =
  match tm_corner m with CornerUnset => CNil | c => CVal c end.
Proof. intros. look. destruct (tm_corner m); reflexivity. Qed.

Lemma m_po : forall m p, tm_origin m = Some p -> finite (fst p) -> finite (snd p) ->
  member "pointOfOrigin" conv_point (collapse (tm_fields m)) = CVal p.
Proof. intros m p H F1 F2. look. rewrite H. apply conv_point_jpoint; assumption. Qed.

Lemma m_tw : forall m, uint_stable (tm_tileWidth m) -> member "tileWidth" conv_uint (collapse (tm_fields m)) = CVal (tm_tileWidth m).
Proof. intros m H. look. exact H. Qed.
Lemma m_th : forall m, uint_stable (tm_tileHeight m) -> member "tileHeight" conv_uint (collapse (tm_fields m)) = CVal (tm_tileHeight m).
Proof. intros m H. look. exact H. Qed.
Lemma m_mw : forall m, uint_stable (tm_matrixWidth m) -> member "matrixWidth" conv_uint (collapse (tm_fields m)) = CVal (tm_matrixWidth m).
Proof. intros m H. look. exact H. Qed.
Lemma m_mh : forall m, uint_stable (tm_matrixHeight m) -> member "matrixHeight" conv_uint (collapse (tm_fields m)) = CVal (tm_matrixHeight m).
Proof. intros m H. look. exact H. Qed.

Lemma m_vm : forall m, (forall l, tm_vmw m = Some l -> Forall vmw_stable l) ->
  member "variableMatrixWidths" conv_vmws (collapse (tm_fields m)) =
  match norm_vmws (tm_vmw m) with Some l => CVal l | None => CNil end.
Proof.
  intros m H. look. destruct (tm_vmw m) as [[|x r]|] eqn:E.
  - reflexivity.
  - specialize (H _ eq_refl). cbn [ovmws norm_vmws conv_vmws].
    rewrite (vmws_of_encode (x :: r) H). reflexivity.
  - reflexivity.
Qed.

Lemma tm_valid_norm : forall m, tm_valid (norm_tm m) = tm_valid m.
Proof. reflexivity. Qed.

Theorem decodeTM_encode : forall m, tm_wf m -> tm_stable m ->
  decodeTM (collapse (tm_fields m)) = Ok (norm_tm m).
Proof.
  intros m [HV [Fsd [Fcs [p [HO [F1 F2]]]]]] [S1 [S2 [S3 [S4 [S5 S6]]]]].
  unfold decodeTM. rewrite S6. unfold decodeTM_fields.
  rewrite m_id, m_title, m_desc, m_kw, (m_sd m Fsd), (m_cs m Fcs), m_co, (m_po m p HO F1 F2),
          (m_tw m S1), (m_th m S2), (m_mw m S3), (m_mh m S4), (m_vm m S5).
  assert (E : (MkTM (cval (CVal (tm_id m)) "")
                 (cval (if String.eqb (tm_title m) "" then CNil else CVal (tm_title m)) "")
                 (cval (if String.eqb (tm_description m) "" then CNil else CVal (tm_description m)) "")
                 (copt match norm_strs (tm_keywords m) with Some l => CVal l | None => CNil end)
                 (cval (CVal (tm_scaleDenominator m)) dzero) (cval (CVal (tm_cellSize m)) dzero)
                 (cval match tm_corner m with CornerUnset => CNil | c => CVal c end CornerUnset)
                 (copt (CVal p)) (cval (CVal (tm_tileWidth m)) 0) (cval (CVal (tm_tileHeight m)) 0)
                 (cval (CVal (tm_matrixWidth m)) 0) (cval (CVal (tm_matrixHeight m)) 0)
                 (copt match norm_vmws (tm_vmw m) with Some l => CVal l | None => CNil end)) = norm_tm m).
  { unfold norm_tm. rewrite HO. f_equal.
    - destruct (String.eqb (tm_title m) "") eqn:E; simpl; auto. apply String.eqb_eq in E. auto.
    - destruct (String.eqb (tm_description m) "") eqn:E; simpl; auto. apply String.eqb_eq in E. auto.
    - destruct (norm_strs (tm_keywords m)); reflexivity.
    - destruct (tm_corner m); reflexivity.
    - destruct (norm_vmws (tm_vmw m)); reflexivity. }
  assert (NH : forall (A : Type) (b : bool) (x : A), is_hard (if b then CNil else CVal x) = false) by (intros A [] x; reflexivity).
  assert (NK : is_hard match norm_strs (tm_keywords m) with Some l => CVal l | None => @CNil (list string) end = false
               /\ is_soft match norm_strs (tm_keywords m) with Some l => CVal l | None => @CNil (list string) end = false)
    by (destruct (norm_strs (tm_keywords m)); split; reflexivity).
  assert (NV : is_hard match norm_vmws (tm_vmw m) with Some l => CVal l | None => @CNil (list vmw) end = false
               /\ is_soft match norm_vmws (tm_vmw m) with Some l => CVal l | None => @CNil (list vmw) end = false)
    by (destruct (norm_vmws (tm_vmw m)); split; reflexivity).
  assert (NC : is_soft match tm_corner m with CornerUnset => CNil | c => CVal c end = false) by (destruct (tm_corner m); reflexivity).
  destruct NK as [NK1 NK2]. destruct NV as [NV1 NV2].
  cbn [is_hard is_soft andb orb]. rewrite !NH, NK1, NK2, NV1, NV2, NC. cbn [andb orb].
  rewrite E. rewrite tm_valid_norm, HV. reflexivity.
Qed.

(** ** The list of tile matrices *)
From Coq Require Import Sorted.

Definition key_lt (a b : Z * tileMatrix) : Prop := fst a < fst b.
Definition ms_ok (l : list (Z * tileMatrix)) : Prop :=
  StronglySorted key_lt l /\ Forall (fun e => parse_int (tm_id (snd e)) = Some (fst e)) l.

Lemma id_key_of : forall k m, parse_int (tm_id m) = Some k -> id_key m = k.
Proof. intros k m H. unfold id_key. rewrite H. reflexivity. Qed.

Lemma sort_by_id_sorted : forall l, ms_ok l -> sort_by_id (map snd l) = map snd l.
Proof.
  induction l as [|[k m] r IH]; intros [HS HF]; [reflexivity|].
  apply StronglySorted_inv in HS. destruct HS as [HSr HSk].
  assert (HFk := Forall_inv HF). assert (HFr := Forall_inv_tail HF). cbn [fst snd] in HFk.
  unfold sort_by_id in *. cbn [map snd fold_right]. rewrite (IH (conj HSr HFr)).
  destruct r as [|[k' m'] r']; [reflexivity|]. cbn [map snd insert_by_id].
  assert (HFk' := Forall_inv HFr). cbn [fst snd] in HFk'.
  assert (HL := Forall_inv HSk). unfold key_lt in HL. cbn [fst] in HL.
  rewrite (id_key_of k m HFk), (id_key_of k' m' HFk').
  destruct (Z.ltb_spec k k'); [reflexivity|lia].
Qed.

Lemma insert_tm_last : forall k m acc, Forall (fun e => fst e < k) acc -> insert_tm k m acc = acc ++ [(k, m)].
Proof.
  intros k m acc H. induction acc as [|[k' m'] r IH]; simpl; auto.
  inversion H; subst. cbn [fst] in H2.
  destruct (Z.eqb_spec k k'); [lia|]. destruct (Z.ltb_spec k k'); [lia|]. rewrite IH by assumption. reflexivity.
Qed.

Definition norm_pair (e : Z * tileMatrix) : Z * tileMatrix := (fst e, norm_tm (snd e)).

Lemma decodeTMs_encode : forall l acc,
  ms_ok l -> Forall (fun e => tm_wf (snd e) /\ tm_stable (snd e)) l ->
  (forall a e, In a acc -> In e l -> fst a < fst e) ->
  decodeTMs (map encodeTM (map snd l)) acc = Ok (acc ++ map norm_pair l).
Proof.
  induction l as [|[k m] r IH]; intros acc [HS HF] HW HA.
  - simpl. rewrite app_nil_r. reflexivity.
  - apply StronglySorted_inv in HS. destruct HS as [HSr HSk].
    assert (HFk := Forall_inv HF). assert (HFr := Forall_inv_tail HF). cbn [fst snd] in HFk.
    assert (HWk := Forall_inv HW). assert (HWr := Forall_inv_tail HW). cbn [snd] in HWk. destruct HWk as [W S].
    cbn [map snd decodeTMs]. unfold encodeTM at 1. rewrite (decodeTM_encode m W S). cbn [bind].
    change (tm_id (norm_tm m)) with (tm_id m). rewrite HFk.
    rewrite insert_tm_last.
    2:{ apply Forall_forall. intros a Ha. apply (HA a (k, m)); [exact Ha|left; reflexivity]. }
    rewrite IH.
    + rewrite <- app_assoc. reflexivity.
    + split; assumption.
    + assumption.
    + intros a e Ha He. apply in_app_or in Ha. destruct Ha as [Ha|[Ha|[]]].
      * apply HA; [exact Ha|right; exact He].
      * subst a. cbn [fst]. rewrite Forall_forall in HSk. apply (HSk e He).
Qed.

(** ** CRS *)
Definition crs_wf (c : crs) : Prop :=
  match c with
  | CrsURI d u a => (exists r, parse_crs_uri u = Some r) /\ (a = true -> d = "")
  | CrsWKT d w => projjson_ok w = true /\ canon_obj w = w /\ nums_finite (JObj w) = true
  | CrsRef d r => canon_obj r = r /\ nums_finite (JObj r) = true
  end.

Ltac lookc :=
  rewrite lookup_last_collapse by (vm_compute; reflexivity);
  cbv [assoc crs_fields String.eqb Ascii.eqb Bool.eqb].

Lemma crs_description_enc : forall d rest, nodupb ("description" :: map fst rest) = true ->
  existsb (String.eqb "description") (map fst rest) = false ->
  crs_description (collapse (("description", ostr d) :: rest)) = Some d.
Proof.
  intros d rest ND NE. unfold crs_description.
  rewrite collapse_cons, lookup_last_app, (lookup_last_collapse_absent _ _ NE).
  unfold ostr. destruct (String.eqb d "") eqn:E.
  - apply String.eqb_eq in E. subst d. reflexivity.
  - reflexivity.
Qed.

Theorem decodeCRS_encode : forall c, crs_wf c -> decodeCRS (encodeCRS c) = Ok c.
Proof.
  intros [d u a|d w|d r] H; simpl in H.
  - destruct H as [[res HP] HA]. destruct a.
    + rewrite (HA eq_refl). cbn [encodeCRS decodeCRS]. unfold decodeCrsURI. cbn [crs_description lookup_last String.eqb Ascii.eqb Bool.eqb].
      rewrite HP. reflexivity.
    + cbn [encodeCRS decodeCRS]. unfold decodeCrsURI. cbn [crs_fields].
      rewrite crs_description_enc by reflexivity.
      lookc. rewrite HP. reflexivity.
  - destruct H as [HP [HC HN]]. cbn [encodeCRS decodeCRS]. unfold decodeCrsURI, decodeCrsWKT. cbn [crs_fields].
    rewrite !crs_description_enc by reflexivity.
    lookc. lookc. rewrite HP, HC. reflexivity.
  - destruct H as [HC HN]. cbn [encodeCRS decodeCRS]. unfold decodeCrsURI, decodeCrsWKT, decodeCrsRef. cbn [crs_fields].
    rewrite !crs_description_enc by reflexivity.
    lookc. lookc. lookc. rewrite HC. reflexivity.
Qed.

(** ** Finiteness of the numbers of an encoding (the lexer reads every number of the document) *)
Definition fin_opt (v : option json) : bool := match v with Some j => nums_finite j | None => true end.

Lemma nums_finite_collapse : forall fs, nums_finite (JObj (collapse fs)) = forallb (fun kv => fin_opt (snd kv)) fs.
Proof.
  induction fs as [|[k v] r IH]; [reflexivity|].
  rewrite collapse_cons. cbn [nums_finite forallb snd fin_opt] in *. rewrite forallb_app, IH.
  destruct v; cbn [forallb snd andb]; [rewrite andb_true_r|]; reflexivity.
Qed.

Lemma nums_finite_jstrs : forall l, nums_finite (jstrs l) = true.
Proof. intros l. unfold jstrs. cbn [nums_finite]. induction l; simpl; auto. Qed.

Lemma fin_ostr : forall s, fin_opt (ostr s) = true.
Proof. intros s. unfold ostr. destruct (String.eqb s ""); reflexivity. Qed.

Lemma fin_ostrs : forall l, fin_opt (ostrs l) = true.
Proof. intros [[|x r]|]; try reflexivity. cbn [ostrs fin_opt]. apply nums_finite_jstrs. Qed.

Lemma finite_num : forall d, finite d -> nums_finite (JNum d) = true.
Proof. intros d [q H]. cbn [nums_finite]. rewrite H. reflexivity. Qed.

Lemma stable_num : forall n, uint_stable n -> nums_finite (jint n) = true.
Proof.
  intros n H. unfold uint_stable, conv_uint, jint in *. cbn [nums_finite].
  destruct (f64_dec (Dec n 0)); [reflexivity|discriminate].
Qed.

Lemma fin_jpoint : forall p, finite (fst p) -> finite (snd p) -> nums_finite (jpoint p) = true.
Proof. intros p [q1 H1] [q2 H2]. unfold jpoint. cbn [nums_finite forallb]. rewrite H1, H2. reflexivity. Qed.

Lemma fin_vmws : forall l, (forall x, l = Some x -> Forall vmw_stable x) -> fin_opt (ovmws l) = true.
Proof.
  intros [[|v r]|] H; try reflexivity. specialize (H _ eq_refl). cbn [ovmws fin_opt nums_finite].
  induction H as [|x xs [S1 [S2 S3]] _ IH]; [reflexivity|].
  cbn [map forallb]. rewrite IH, andb_true_r. unfold encodeVmw. cbn [nums_finite forallb snd].
  rewrite (stable_num _ S1), (stable_num _ S2), (stable_num _ S3). reflexivity.
Qed.

Lemma nums_finite_encodeTM : forall m, tm_wf m -> tm_stable m -> nums_finite (encodeTM m) = true.
Proof.
  intros m [HV [Fsd [Fcs [p [HO [F1 F2]]]]]] [S1 [S2 [S3 [S4 [S5 _]]]]].
  unfold encodeTM. rewrite nums_finite_collapse. unfold tm_fields. cbn [forallb snd fin_opt].
  rewrite !fin_ostr, fin_ostrs, (finite_num _ Fsd), (finite_num _ Fcs), HO, (fin_jpoint p F1 F2),
          (stable_num _ S1), (stable_num _ S2), (stable_num _ S3), (stable_num _ S4), (fin_vmws _ S5).
  reflexivity.
Qed.

Lemma nums_finite_encodeCRS : forall c, crs_wf c -> nums_finite (encodeCRS c) = true.
Proof.
  intros [d u a|d w|d r] H; cbn [crs_wf] in H.
  - destruct a; [reflexivity|]. cbn [encodeCRS]. rewrite nums_finite_collapse. cbn [crs_fields forallb snd fin_opt].
    rewrite fin_ostr. reflexivity.
  - destruct H as [_ [_ HN]]. cbn [encodeCRS]. rewrite nums_finite_collapse. cbn [crs_fields forallb snd fin_opt].
    rewrite fin_ostr, HN. reflexivity.
  - destruct H as [_ HN]. cbn [encodeCRS]. rewrite nums_finite_collapse. cbn [crs_fields forallb snd fin_opt].
    rewrite fin_ostr, HN. reflexivity.
Qed.

(** ** Bounding box *)
Definition bbox_wf (b : bbox) : Prop :=
  finite (fst (bb_lowerLeft b)) /\ finite (snd (bb_lowerLeft b)) /\
  finite (fst (bb_upperRight b)) /\ finite (snd (bb_upperRight b)) /\
  crs_wf (bb_crs b) /\
  (forall l, bb_orderedAxes b = Some l -> length l = 2%nat).

Lemma foldO_cons : forall {A S} (f : S -> A -> outcome S) x l s, foldO f (x :: l) s = bind (f s x) (fun s' => foldO f l s').
Proof. reflexivity. Qed.

Theorem decodeBBox_encode : forall b, bbox_wf b -> decodeBBox (encodeBBox b) = Ok (norm_bbox b).
Proof.
  intros [ll ur ax c] [F1 [F2 [F3 [F4 [HC HA]]]]]. cbn [bb_lowerLeft bb_upperRight bb_orderedAxes bb_crs] in *.
  unfold encodeBBox, bbox_fields, decodeBBox. cbn [bb_lowerLeft bb_upperRight bb_orderedAxes bb_crs].
  assert (NF := nums_finite_encodeCRS c HC). assert (DC := decodeCRS_encode c HC).
  destruct ax as [[|x r]|].
  - specialize (HA _ eq_refl). discriminate.
  - specialize (HA _ eq_refl).
    cbn [collapse flat_map snd fst app ostrs].
    rewrite foldO_cons. cbn [bb_step String.eqb Ascii.eqb Bool.eqb]. rewrite (conv_point_jpoint ll F1 F2). cbn [bind ba_ll ba_ur ba_axes ba_crs].
    rewrite foldO_cons. cbn [bb_step String.eqb Ascii.eqb Bool.eqb]. rewrite (conv_point_jpoint ur F3 F4). cbn [bind ba_ll ba_ur ba_axes ba_crs].
    rewrite foldO_cons. cbn [bb_step String.eqb Ascii.eqb Bool.eqb]. unfold jstrs, conv_strs. rewrite strs_of_map. cbn [bind ba_ll ba_ur ba_axes ba_crs].
    rewrite foldO_cons. cbn [bb_step String.eqb Ascii.eqb Bool.eqb]. rewrite NF. cbn [foldO bind ba_ll ba_ur ba_axes ba_crs].
    rewrite DC. cbn [bind]. rewrite HA. reflexivity.
  - cbn [collapse flat_map snd fst app ostrs].
    rewrite foldO_cons. cbn [bb_step String.eqb Ascii.eqb Bool.eqb]. rewrite (conv_point_jpoint ll F1 F2). cbn [bind ba_ll ba_ur ba_axes ba_crs].
    rewrite foldO_cons. cbn [bb_step String.eqb Ascii.eqb Bool.eqb]. rewrite (conv_point_jpoint ur F3 F4). cbn [bind ba_ll ba_ur ba_axes ba_crs].
    rewrite foldO_cons. cbn [bb_step String.eqb Ascii.eqb Bool.eqb]. rewrite NF. cbn [foldO bind ba_ll ba_ur ba_axes ba_crs].
    rewrite DC. cbn [bind]. reflexivity.
Qed.

(** ** The whole document *)
Definition tms_wf (t : tms) : Prop :=
  tms_valid t = true /\ crs_wf (t_crs t) /\ (forall b, t_bbox t = Some b -> bbox_wf b) /\
  ms_ok (t_matrices t) /\ Forall (fun e => tm_wf (snd e)) (t_matrices t).

Definition tms_stable (t : tms) : Prop := Forall (fun e => tm_stable (snd e)) (t_matrices t).

Lemma foldO_collapse_cons : forall {S} (f : S -> string * json -> outcome S) k ov rest a,
  foldO f (collapse ((k, ov) :: rest)) a =
  match ov with
  | Some v => bind (f a (k, v)) (fun a' => foldO f (collapse rest) a')
  | None => foldO f (collapse rest) a
  end.
Proof. intros. rewrite collapse_cons. destruct ov; reflexivity. Qed.

Section TopSteps.
  Context {R : Type} (K : topacc -> outcome R).
  Variables (i ti de ur wk : string) (kw ax : option (list string)) (bb : option bbox) (cr tm : option json).

  Lemma top_id : forall s,
    match ostr s with Some v => bind (top_step (MkTop "" ti de kw ur ax wk bb cr tm) ("id", v)) K | None => K (MkTop "" ti de kw ur ax wk bb cr tm) end
    = K (MkTop s ti de kw ur ax wk bb cr tm).
  Proof. intros s. unfold ostr. destruct (String.eqb s "") eqn:E; [apply String.eqb_eq in E; subst s|]; reflexivity. Qed.

  Lemma top_title : forall s,
    match ostr s with Some v => bind (top_step (MkTop i "" de kw ur ax wk bb cr tm) ("title", v)) K | None => K (MkTop i "" de kw ur ax wk bb cr tm) end
    = K (MkTop i s de kw ur ax wk bb cr tm).
  Proof. intros s. unfold ostr. destruct (String.eqb s "") eqn:E; [apply String.eqb_eq in E; subst s|]; reflexivity. Qed.

  Lemma top_desc : forall s,
    match ostr s with Some v => bind (top_step (MkTop i ti "" kw ur ax wk bb cr tm) ("description", v)) K | None => K (MkTop i ti "" kw ur ax wk bb cr tm) end
    = K (MkTop i ti s kw ur ax wk bb cr tm).
  Proof. intros s. unfold ostr. destruct (String.eqb s "") eqn:E; [apply String.eqb_eq in E; subst s|]; reflexivity. Qed.

  Lemma top_kw : forall l,
    match ostrs l with Some v => bind (top_step (MkTop i ti de None ur ax wk bb cr tm) ("keywords", v)) K | None => K (MkTop i ti de None ur ax wk bb cr tm) end
    = K (MkTop i ti de (norm_strs l) ur ax wk bb cr tm).
  Proof.
    intros [[|x r]|]; try reflexivity. cbn [ostrs norm_strs top_step String.eqb Ascii.eqb Bool.eqb].
    unfold top_strs, jstrs, conv_strs. rewrite strs_of_map. reflexivity.
  Qed.

  Lemma top_uri : forall s,
    match ostr s with Some v => bind (top_step (MkTop i ti de kw "" ax wk bb cr tm) ("uri", v)) K | None => K (MkTop i ti de kw "" ax wk bb cr tm) end
    = K (MkTop i ti de kw s ax wk bb cr tm).
  Proof. intros s. unfold ostr. destruct (String.eqb s "") eqn:E; [apply String.eqb_eq in E; subst s|]; reflexivity. Qed.

  Lemma top_axes : forall l,
    bind (top_step (MkTop i ti de kw ur None wk bb cr tm) ("orderedAxes", match l with None => JNull | Some x => jstrs x end)) K
    = K (MkTop i ti de kw ur l wk bb cr tm).
  Proof.
    intros [x|]; cbn [top_step String.eqb Ascii.eqb Bool.eqb]; unfold top_strs; [|reflexivity].
    unfold jstrs, conv_strs. rewrite strs_of_map. reflexivity.
  Qed.

  Lemma top_wkss : forall s,
    match ostr s with Some v => bind (top_step (MkTop i ti de kw ur ax "" bb cr tm) ("wellKnownScaleSet", v)) K | None => K (MkTop i ti de kw ur ax "" bb cr tm) end
    = K (MkTop i ti de kw ur ax s bb cr tm).
  Proof. intros s. unfold ostr. destruct (String.eqb s "") eqn:E; [apply String.eqb_eq in E; subst s|]; reflexivity. Qed.

  Lemma top_bbox : forall b, (forall x, b = Some x -> bbox_wf x) ->
    match match b with None => None | Some x => Some (encodeBBox x) end with
    | Some v => bind (top_step (MkTop i ti de kw ur ax wk None cr tm) ("boundingBox", v)) K
    | None => K (MkTop i ti de kw ur ax wk None cr tm) end
    = K (MkTop i ti de kw ur ax wk (option_map norm_bbox b) cr tm).
  Proof.
    intros [x|] H; [|reflexivity]. cbn [top_step String.eqb Ascii.eqb Bool.eqb].
    rewrite (decodeBBox_encode x (H x eq_refl)). reflexivity.
  Qed.

  Lemma top_crs : forall v, nums_finite v = true ->
    bind (top_step (MkTop i ti de kw ur ax wk bb None tm) ("crs", v)) K = K (MkTop i ti de kw ur ax wk bb (Some v) tm).
  Proof. intros v H. cbn [top_step String.eqb Ascii.eqb Bool.eqb]. rewrite H. reflexivity. Qed.

  Lemma top_tms : forall v, nums_finite v = true ->
    bind (top_step (MkTop i ti de kw ur ax wk bb cr None) ("tileMatrices", v)) K = K (MkTop i ti de kw ur ax wk bb cr (Some v)).
  Proof. intros v H. cbn [top_step String.eqb Ascii.eqb Bool.eqb]. rewrite H. reflexivity. Qed.
End TopSteps.

Section TopFolds.
  Variables (i ti de ur wk : string) (kw ax : option (list string)) (bb : option bbox) (cr tm : option json) (rest : fields).
  Let K := fun a => foldO top_step (collapse rest) a.

  Lemma fold_id : forall s, foldO top_step (collapse (("id", ostr s) :: rest)) (MkTop "" ti de kw ur ax wk bb cr tm)
    = foldO top_step (collapse rest) (MkTop s ti de kw ur ax wk bb cr tm).
  Proof. intros. rewrite foldO_collapse_cons. exact (top_id K ti de ur wk kw ax bb cr tm s). Qed.
  Lemma fold_title : forall s, foldO top_step (collapse (("title", ostr s) :: rest)) (MkTop i "" de kw ur ax wk bb cr tm)
    = foldO top_step (collapse rest) (MkTop i s de kw ur ax wk bb cr tm).
  Proof. intros. rewrite foldO_collapse_cons. exact (top_title K i de ur wk kw ax bb cr tm s). Qed.
  Lemma fold_desc : forall s, foldO top_step (collapse (("description", ostr s) :: rest)) (MkTop i ti "" kw ur ax wk bb cr tm)
    = foldO top_step (collapse rest) (MkTop i ti s kw ur ax wk bb cr tm).
  Proof. intros. rewrite foldO_collapse_cons. exact (top_desc K i ti ur wk kw ax bb cr tm s). Qed.
  Lemma fold_kw : forall l, foldO top_step (collapse (("keywords", ostrs l) :: rest)) (MkTop i ti de None ur ax wk bb cr tm)
    = foldO top_step (collapse rest) (MkTop i ti de (norm_strs l) ur ax wk bb cr tm).
  Proof. intros. rewrite foldO_collapse_cons. exact (top_kw K i ti de ur wk ax bb cr tm l). Qed.
  Lemma fold_uri : forall s, foldO top_step (collapse (("uri", ostr s) :: rest)) (MkTop i ti de kw "" ax wk bb cr tm)
    = foldO top_step (collapse rest) (MkTop i ti de kw s ax wk bb cr tm).
  Proof. intros. rewrite foldO_collapse_cons. exact (top_uri K i ti de wk kw ax bb cr tm s). Qed.
  Lemma fold_axes : forall l, foldO top_step (collapse (("orderedAxes", Some (match l with None => JNull | Some x => jstrs x end)) :: rest)) (MkTop i ti de kw ur None wk bb cr tm)
    = foldO top_step (collapse rest) (MkTop i ti de kw ur l wk bb cr tm).
  Proof. intros. rewrite foldO_collapse_cons. exact (top_axes K i ti de ur wk kw bb cr tm l). Qed.
  Lemma fold_wkss : forall s, foldO top_step (collapse (("wellKnownScaleSet", ostr s) :: rest)) (MkTop i ti de kw ur ax "" bb cr tm)
    = foldO top_step (collapse rest) (MkTop i ti de kw ur ax s bb cr tm).
  Proof. intros. rewrite foldO_collapse_cons. exact (top_wkss K i ti de ur kw ax bb cr tm s). Qed.
  Lemma fold_bbox : forall b, (forall x, b = Some x -> bbox_wf x) ->
    foldO top_step (collapse (("boundingBox", match b with None => None | Some x => Some (encodeBBox x) end) :: rest)) (MkTop i ti de kw ur ax wk None cr tm)
    = foldO top_step (collapse rest) (MkTop i ti de kw ur ax wk (option_map norm_bbox b) cr tm).
  Proof. intros b H. rewrite foldO_collapse_cons. exact (top_bbox K i ti de ur wk kw ax cr tm b H). Qed.
  Lemma fold_crs : forall v, nums_finite v = true ->
    foldO top_step (collapse (("crs", Some v) :: rest)) (MkTop i ti de kw ur ax wk bb None tm)
    = foldO top_step (collapse rest) (MkTop i ti de kw ur ax wk bb (Some v) tm).
  Proof. intros v H. rewrite foldO_collapse_cons. exact (top_crs K i ti de ur wk kw ax bb tm v H). Qed.
  Lemma fold_tms : forall v, nums_finite v = true ->
    foldO top_step (collapse (("tileMatrices", Some v) :: rest)) (MkTop i ti de kw ur ax wk bb cr None)
    = foldO top_step (collapse rest) (MkTop i ti de kw ur ax wk bb cr (Some v)).
  Proof. intros v H. rewrite foldO_collapse_cons. exact (top_tms K i ti de ur wk kw ax bb cr v H). Qed.
End TopFolds.

Lemma tms_valid_norm : forall t, tms_valid (norm_tms t) = tms_valid t.
Proof.
  intros t. unfold tms_valid, norm_tms. cbn [t_uri t_orderedAxes t_wkss t_matrices].
  destruct (t_matrices t); reflexivity.
Qed.

Lemma nums_finite_tms_array : forall l, Forall (fun e : Z * tileMatrix => tm_wf (snd e) /\ tm_stable (snd e)) l ->
  nums_finite (JArr (map encodeTM (map snd l))) = true.
Proof.
  intros l H. cbn [nums_finite]. induction H as [|[k m] r [W S] _ IH]; [reflexivity|].
  cbn [map snd forallb]. rewrite (nums_finite_encodeTM m W S), IH. reflexivity.
Qed.

Theorem encode_decode : forall t, tms_wf t -> tms_stable t -> decodeTMS (encodeTMS t) = Ok (norm_tms t).
Proof.
  intros t [HV [HC [HB [HM HW]]]] HS.
  assert (HWS : Forall (fun e : Z * tileMatrix => tm_wf (snd e) /\ tm_stable (snd e)) (t_matrices t)).
  { unfold tms_stable in HS. rewrite Forall_forall in *. intros e He. split; auto. }
  unfold encodeTMS, decodeTMS, tms_fields. rewrite (sort_by_id_sorted _ HM).
  unfold top_empty.
  rewrite fold_id, fold_title, fold_desc, fold_kw, fold_uri, fold_axes, fold_wkss.
  rewrite (fold_bbox _ _ _ _ _ _ _ _ _ _ (t_bbox t) HB).
  rewrite (fold_crs _ _ _ _ _ _ _ _ _ _ _ (nums_finite_encodeCRS _ HC)).
  rewrite (fold_tms _ _ _ _ _ _ _ _ _ _ _ (nums_finite_tms_array _ HWS)).
  cbn [collapse flat_map foldO bind]. unfold decodeTop. cbn [ta_id ta_title ta_desc ta_kw ta_uri ta_axes ta_wkss ta_bbox ta_crs ta_tms].
  rewrite (decodeCRS_encode _ HC). cbn [bind].
  rewrite (decodeTMs_encode (t_matrices t) [] HM HWS) by (intros a e []).
  cbn [bind app].
  change (MkTMS (t_id t) (t_title t) (t_description t) (norm_strs (t_keywords t)) (t_uri t) (t_orderedAxes t) (t_wkss t)
                (option_map norm_bbox (t_bbox t)) (t_crs t) (map norm_pair (t_matrices t))) with (norm_tms t).
  rewrite tms_valid_norm, HV. reflexivity.
Qed.
