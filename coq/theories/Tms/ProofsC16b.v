(** * C16 — the general round trip: decode (encode v) = normalised v for every decoded v *)
From Coq Require Import ZArith QArith String Ascii List Bool Lia.
From Texel Require Import Tms.Json Tms.Model.
From Texel.Gen Require Import ConstsGen TmsData.
Import ListNotations.
Open Scope string_scope.
Open Scope Z_scope.
Open Scope list_scope.

(** ** Objects printed from a field list *)
Fixpoint assoc (k : string) (l : fields) : option (option json) :=
  match l with
  | [] => None
  | (k', v) :: r => if String.eqb k k' then Some v else assoc k r
  end.

Fixpoint nodupb (l : list string) : bool :=
  match l with
  | [] => true
  | k :: r => negb (existsb (String.eqb k) r) && nodupb r
  end.

Lemma lookup_last_app : forall k a b,
  lookup_last k (a ++ b) = match lookup_last k b with Some v => Some v | None => lookup_last k a end.
Proof.
  intros k a b. induction a as [|[k' v] r IH]; simpl.
  - destruct (lookup_last k b); reflexivity.
  - rewrite IH. destruct (lookup_last k b); reflexivity.
Qed.

Lemma collapse_cons : forall k v r,
  collapse ((k, v) :: r) = match v with Some x => [(k, x)] | None => [] end ++ collapse r.
Proof. reflexivity. Qed.

Lemma lookup_last_collapse_absent : forall k l, existsb (String.eqb k) (map fst l) = false -> lookup_last k (collapse l) = None.
Proof.
  intros k l. induction l as [|[k' v] r IH]; intro H.
  - reflexivity.
  - cbn [map fst existsb] in H. apply orb_false_iff in H. destruct H as [H1 H2].
    rewrite collapse_cons, lookup_last_app, (IH H2).
    destruct v; simpl; auto. rewrite H1. reflexivity.
Qed.

Lemma lookup_last_collapse : forall k l, nodupb (map fst l) = true ->
  lookup_last k (collapse l) = match assoc k l with Some (Some v) => Some v | _ => None end.
Proof.
  intros k l. induction l as [|[k' v] r IH]; intro H.
  - reflexivity.
  - cbn [map fst nodupb] in H. apply andb_true_iff in H. destruct H as [H1 H2]. apply negb_true_iff in H1.
    rewrite collapse_cons, lookup_last_app. cbn [assoc].
    destruct (String.eqb k k') eqn:E.
    + apply String.eqb_eq in E. subst k'. rewrite (lookup_last_collapse_absent k r H1).
      destruct v; simpl; auto. rewrite String.eqb_refl. reflexivity.
    + rewrite (IH H2). destruct (assoc k r) as [[w|]|]; auto; destruct v; simpl; auto; rewrite E; reflexivity.
Qed.

(** ** Normalisation: nil and empty slices are the same value *)
Definition norm_strs (l : option (list string)) : option (list string) := match l with Some [] => None | x => x end.
Definition norm_vmws (l : option (list vmw)) : option (list vmw) := match l with Some [] => None | x => x end.

Definition norm_tm (m : tileMatrix) : tileMatrix :=
  MkTM (tm_id m) (tm_title m) (tm_description m) (norm_strs (tm_keywords m)) (tm_scaleDenominator m) (tm_cellSize m)
       (tm_corner m) (tm_origin m) (tm_tileWidth m) (tm_tileHeight m) (tm_matrixWidth m) (tm_matrixHeight m)
       (norm_vmws (tm_vmw m)).

Definition norm_bbox (b : bbox) : bbox :=
  MkBB (bb_lowerLeft b) (bb_upperRight b) (norm_strs (bb_orderedAxes b)) (bb_crs b).

Definition norm_tms (t : tms) : tms :=
  MkTMS (t_id t) (t_title t) (t_description t) (norm_strs (t_keywords t)) (t_uri t) (t_orderedAxes t) (t_wkss t)
        (option_map norm_bbox (t_bbox t)) (t_crs t) (map (fun e => (fst e, norm_tm (snd e))) (t_matrices t)).

Lemma ostrs_norm : forall l, ostrs (norm_strs l) = ostrs l.
Proof. intros [[|x r]|]; reflexivity. Qed.
Lemma ovmws_norm : forall l, ovmws (norm_vmws l) = ovmws l.
Proof. intros [[|x r]|]; reflexivity. Qed.
Lemma norm_strs_idem : forall l, norm_strs (norm_strs l) = norm_strs l.
Proof. intros [[|x r]|]; reflexivity. Qed.
Lemma norm_vmws_idem : forall l, norm_vmws (norm_vmws l) = norm_vmws l.
Proof. intros [[|x r]|]; reflexivity. Qed.

Lemma tm_fields_norm : forall m, tm_fields (norm_tm m) = tm_fields m.
Proof. intros m. unfold tm_fields, norm_tm. cbn [tm_id tm_title tm_description tm_keywords tm_scaleDenominator tm_cellSize tm_corner tm_origin tm_tileWidth tm_tileHeight tm_matrixWidth tm_matrixHeight tm_vmw]. rewrite ostrs_norm, ovmws_norm. reflexivity. Qed.

Lemma encodeTM_norm : forall m, encodeTM (norm_tm m) = encodeTM m.
Proof. intros m. unfold encodeTM. rewrite tm_fields_norm. reflexivity. Qed.

Lemma encodeBBox_norm : forall b, encodeBBox (norm_bbox b) = encodeBBox b.
Proof. intros b. unfold encodeBBox, bbox_fields, norm_bbox. cbn [bb_lowerLeft bb_upperRight bb_orderedAxes bb_crs]. rewrite ostrs_norm. reflexivity. Qed.

Lemma id_key_norm : forall m, id_key (norm_tm m) = id_key m.
Proof. reflexivity. Qed.

Lemma insert_by_id_norm : forall m l, insert_by_id (norm_tm m) (map norm_tm l) = map norm_tm (insert_by_id m l).
Proof.
  intros m l. induction l as [|m' r IH]; simpl; auto.
  rewrite !id_key_norm. destruct (id_key m <? id_key m'); simpl; auto. rewrite IH. reflexivity.
Qed.

Lemma sort_by_id_norm : forall l, sort_by_id (map norm_tm l) = map norm_tm (sort_by_id l).
Proof. induction l as [|m r IH]; simpl; auto. unfold sort_by_id in *. simpl. rewrite IH. apply insert_by_id_norm. Qed.

(** the encoding does not see the normalisation: encode is stable *)
Theorem encode_norm : forall t, encodeTMS (norm_tms t) = encodeTMS t.
Proof.
  intros t. unfold encodeTMS, tms_fields, norm_tms.
  cbn [t_id t_title t_description t_keywords t_uri t_orderedAxes t_wkss t_bbox t_crs t_matrices].
  rewrite ostrs_norm.
  assert (E1 : match option_map norm_bbox (t_bbox t) with None => None | Some b => Some (encodeBBox b) end
               = match t_bbox t with None => None | Some b => Some (encodeBBox b) end).
  { destruct (t_bbox t); simpl; auto. rewrite encodeBBox_norm. reflexivity. }
  rewrite E1.
  assert (E2 : map encodeTM (sort_by_id (map snd (map (fun e : Z * tileMatrix => (fst e, norm_tm (snd e))) (t_matrices t))))
               = map encodeTM (sort_by_id (map snd (t_matrices t)))).
  { rewrite map_map. cbn [snd]. rewrite <- (map_map snd norm_tm). rewrite sort_by_id_norm, map_map.
    apply map_ext. intros m. apply encodeTM_norm. }
  rewrite E2. reflexivity.
Qed.

Theorem norm_idem : forall t, norm_tms (norm_tms t) = norm_tms t.
Proof.
  intros t. unfold norm_tms.
  cbn [t_id t_title t_description t_keywords t_uri t_orderedAxes t_wkss t_bbox t_crs t_matrices].
  rewrite norm_strs_idem. f_equal.
  - destruct (t_bbox t) as [b|]; simpl; auto. unfold norm_bbox. cbn [bb_lowerLeft bb_upperRight bb_orderedAxes bb_crs].
    rewrite norm_strs_idem. reflexivity.
  - rewrite map_map. apply map_ext. intros [k m]. cbn [fst snd]. unfold norm_tm.
    cbn [tm_id tm_title tm_description tm_keywords tm_scaleDenominator tm_cellSize tm_corner tm_origin tm_tileWidth tm_tileHeight tm_matrixWidth tm_matrixHeight tm_vmw].
    rewrite norm_strs_idem, norm_vmws_idem. reflexivity.
Qed.

(** ** One tile matrix *)
Definition finite (d : dec) : Prop := exists q, f64_dec d = FNum q.
(** an unsigned member that survives printing and reading back (every value below 2^53 does; a wrapped negative
    such as 2^64 - 1 does not: F6b) *)
Definition uint_stable (n : Z) : Prop := conv_uint (jint n) = CVal n.
Definition vmw_stable (v : vmw) : Prop :=
  uint_stable (v_coalesce v) /\ uint_stable (v_minTileRow v) /\ uint_stable (v_maxTileRow v).

Definition tm_wf (m : tileMatrix) : Prop :=
  tm_valid m = true /\ finite (tm_scaleDenominator m) /\ finite (tm_cellSize m) /\
  exists p, tm_origin m = Some p /\ finite (fst p) /\ finite (snd p).

Definition tm_stable (m : tileMatrix) : Prop :=
  uint_stable (tm_tileWidth m) /\ uint_stable (tm_tileHeight m) /\
  uint_stable (tm_matrixWidth m) /\ uint_stable (tm_matrixHeight m) /\
  forall l, tm_vmw m = Some l -> Forall vmw_stable l.

Ltac look :=
  unfold member; rewrite lookup_last_collapse by (vm_compute; reflexivity);
  cbv [assoc tm_fields String.eqb Ascii.eqb Bool.eqb].

Lemma strs_of_map : forall l, strs_of (map JStr l) = Some l.
Proof. induction l as [|s r IH]; simpl; auto. rewrite IH. reflexivity. Qed.

Lemma conv_float_finite : forall d, finite d -> conv_float (JNum d) = CVal d.
Proof. intros d [q H]. simpl. rewrite H. reflexivity. Qed.

Lemma conv_point_jpoint : forall p, finite (fst p) -> finite (snd p) -> conv_point (jpoint p) = CVal p.
Proof.
  intros [a b] [qa Ha] [qb Hb]. simpl in *. unfold jpoint. simpl. rewrite Ha. simpl. rewrite Hb. reflexivity.
Qed.

Lemma uint_member_stable : forall k o n, lookup_last k o = Some (jint n) -> uint_stable n -> uint_member k o = Some n.
Proof. intros k o n H S. unfold uint_member. rewrite H. unfold uint_stable in S. rewrite S. reflexivity. Qed.

Lemma vmw_of_encode : forall v, vmw_stable v -> vmw_of (encodeVmw v) = Some v.
Proof.
  intros [c a b] [S1 [S2 S3]]. simpl in *. unfold vmw_of, encodeVmw. cbn [v_coalesce v_minTileRow v_maxTileRow].
  rewrite (uint_member_stable "coalesce" _ c) by (auto; reflexivity).
  rewrite (uint_member_stable "minTileRow" _ a) by (auto; reflexivity).
  rewrite (uint_member_stable "maxTileRow" _ b) by (auto; reflexivity).
  reflexivity.
Qed.

Lemma vmws_of_encode : forall l, Forall vmw_stable l -> vmws_of (map encodeVmw l) = Some l.
Proof.
  induction l as [|v r IH]; intro H; cbn [map vmws_of]; auto.
  inversion H; subst. rewrite vmw_of_encode by assumption. rewrite IH by assumption. reflexivity.
Qed.

Lemma m_id : forall m, member "id" conv_str (collapse (tm_fields m)) = CVal (tm_id m).
Proof. intros. look. reflexivity. Qed.

Lemma m_ostr : forall s, match ostr s with Some v => conv_str v | None => CNil end = if String.eqb s "" then CNil else CVal s.
Proof. intros s. unfold ostr. destruct (String.eqb s ""); reflexivity. Qed.

Lemma m_title : forall m, member "title" conv_str (collapse (tm_fields m)) = if String.eqb (tm_title m) "" then CNil else CVal (tm_title m).
Proof. intros. look. rewrite <- m_ostr. destruct (ostr (tm_title m)); reflexivity. Qed.

Lemma m_desc : forall m, member "description" conv_str (collapse (tm_fields m)) = if String.eqb (tm_description m) "" then CNil else CVal (tm_description m).
Proof. intros. look. rewrite <- m_ostr. destruct (ostr (tm_description m)); reflexivity. Qed.

Lemma m_kw : forall m, member "keywords" conv_strs (collapse (tm_fields m)) =
  match norm_strs (tm_keywords m) with Some l => CVal l | None => CNil end.
Proof.
  intros. look. destruct (tm_keywords m) as [[|x r]|]; simpl; auto.
  rewrite strs_of_map. reflexivity.
Qed.

Lemma m_sd : forall m, finite (tm_scaleDenominator m) -> member "scaleDenominator" conv_float (collapse (tm_fields m)) = CVal (tm_scaleDenominator m).
Proof. intros m H. look. apply conv_float_finite; exact H. Qed.

Lemma m_cs : forall m, finite (tm_cellSize m) -> member "cellSize" conv_float (collapse (tm_fields m)) = CVal (tm_cellSize m).
Proof. intros m H. look. apply conv_float_finite; exact H. Qed.

Lemma m_co : forall m, member "cornerOfOrigin" conv_corner (collapse (tm_fields m)) =
  match tm_corner m with CornerUnset => CNil | c => CVal c end.
Proof. intros. look. destruct (tm_corner m); reflexivity. Qed.

Lemma m_po : forall m p, tm_origin m = Some p -> finite (fst p) -> finite (snd p) ->
  member "pointOfOrigin" conv_point (collapse (tm_fields m)) = CVal p.
Proof. intros m p H F1 F2. look. rewrite H. apply conv_point_jpoint; assumption. Qed.

Lemma m_tw : forall m, uint_stable (tm_tileWidth m) -> member "tileWidth" conv_uint (collapse (tm_fields m)) = CVal (tm_tileWidth m).
Proof. intros m H. look. exact H. Qed.
Lemma m_th : forall m, uint_stable (tm_tileHeight m) -> member "tileHeight" conv_uint (collapse (tm_fields m)) = CVal (tm_tileHeight m).
Proof. intros m H. look. exact H. Qed.
Lemma m_mw : forall m, uint_stable (tm_matrixWidth m) -> member "matrixWidth" conv_uint (collapse (tm_fields m)) = CVal (tm_matrixWidth m).
Proof. intros m H. look. exact H. Qed.
Lemma m_mh : forall m, uint_stable (tm_matrixHeight m) -> member "matrixHeight" conv_uint (collapse (tm_fields m)) = CVal (tm_matrixHeight m).
Proof. intros m H. look. exact H. Qed.

Lemma m_vm : forall m, (forall l, tm_vmw m = Some l -> Forall vmw_stable l) ->
  member "variableMatrixWidths" conv_vmws (collapse (tm_fields m)) =
  match norm_vmws (tm_vmw m) with Some l => CVal l | None => CNil end.
Proof.
  intros m H. look. destruct (tm_vmw m) as [[|x r]|] eqn:E; simpl; auto.
  specialize (H _ eq_refl). unfold ovmws, conv_vmws.
  rewrite (vmws_of_encode (x :: r) H). reflexivity.
Qed.

Lemma tm_valid_norm : forall m, tm_valid (norm_tm m) = tm_valid m.
Proof. reflexivity. Qed.

Theorem decodeTM_encode : forall m, tm_wf m -> tm_stable m ->
  decodeTM (collapse (tm_fields m)) = Ok (norm_tm m).
Proof.
  intros m [HV [Fsd [Fcs [p [HO [F1 F2]]]]]] [S1 [S2 [S3 [S4 S5]]]].
  unfold decodeTM.
  rewrite m_id, m_title, m_desc, m_kw, (m_sd m Fsd), (m_cs m Fcs), m_co, (m_po m p HO F1 F2),
          (m_tw m S1), (m_th m S2), (m_mw m S3), (m_mh m S4), (m_vm m S5).
  assert (E : (MkTM (cval (CVal (tm_id m)) "")
                 (cval (if String.eqb (tm_title m) "" then CNil else CVal (tm_title m)) "")
                 (cval (if String.eqb (tm_description m) "" then CNil else CVal (tm_description m)) "")
                 (copt match norm_strs (tm_keywords m) with Some l => CVal l | None => CNil end)
                 (cval (CVal (tm_scaleDenominator m)) dzero) (cval (CVal (tm_cellSize m)) dzero)
                 (cval match tm_corner m with CornerUnset => CNil | c => CVal c end CornerUnset)
                 (copt (CVal p)) (cval (CVal (tm_tileWidth m)) 0) (cval (CVal (tm_tileHeight m)) 0)
                 (cval (CVal (tm_matrixWidth m)) 0) (cval (CVal (tm_matrixHeight m)) 0)
                 (copt match norm_vmws (tm_vmw m) with Some l => CVal l | None => CNil end)) = norm_tm m).
  { unfold norm_tm. rewrite HO. f_equal.
    - destruct (String.eqb (tm_title m) "") eqn:E; simpl; auto. apply String.eqb_eq in E. auto.
    - destruct (String.eqb (tm_description m) "") eqn:E; simpl; auto. apply String.eqb_eq in E. auto.
    - destruct (norm_strs (tm_keywords m)); reflexivity.
    - destruct (tm_corner m); reflexivity.
    - destruct (norm_vmws (tm_vmw m)); reflexivity. }
  assert (NH : forall (A : Type) (b : bool) (x : A), is_hard (if b then CNil else CVal x) = false) by (intros A [] x; reflexivity).
  assert (NK : is_hard match norm_strs (tm_keywords m) with Some l => CVal l | None => @CNil (list string) end = false
               /\ is_soft match norm_strs (tm_keywords m) with Some l => CVal l | None => @CNil (list string) end = false)
    by (destruct (norm_strs (tm_keywords m)); split; reflexivity).
  assert (NV : is_hard match norm_vmws (tm_vmw m) with Some l => CVal l | None => @CNil (list vmw) end = false
               /\ is_soft match norm_vmws (tm_vmw m) with Some l => CVal l | None => @CNil (list vmw) end = false)
    by (destruct (norm_vmws (tm_vmw m)); split; reflexivity).
  assert (NC : is_soft match tm_corner m with CornerUnset => CNil | c => CVal c end = false) by (destruct (tm_corner m); reflexivity).
  destruct NK as [NK1 NK2]. destruct NV as [NV1 NV2].
  cbn [is_panic is_hard is_soft andb orb]. rewrite !NH, NK1, NK2, NV1, NV2, NC. cbn [andb orb].
  rewrite E. rewrite tm_valid_norm, HV. reflexivity.
Qed.
