(** * JSON values, exact decimal numbers, the binary64 image of a decimal, Go's
      string -> integer and float -> uint conversions.

    Definitions only (executable).  A JSON document is a TREE: the text -> tree
    step (encoding/json's syntax check, easyjson's lexer) is trusted.  Objects
    keep the order of their members and duplicate keys, because the decoders of
    tms20 treat duplicates differently at different places. *)
From Coq Require Import ZArith QArith String Ascii List Bool.
Import ListNotations.
Open Scope Z_scope.

(** ** Exact decimals: [Dec m e] is the number m * 10^e, exactly as written in the document *)
Record dec := Dec { dmant : Z; dexp : Z }.

Inductive json :=
| JNull
| JBool (b : bool)
| JNum (d : dec)
| JStr (s : string)
| JArr (l : list json)
| JObj (l : list (string * json)).

Definition jn (m e : Z) : json := JNum (Dec m e).

(** a string given by its bytes (for the generated data, when a byte is not printable ASCII) *)
Fixpoint bs (l : list N) : string :=
  match l with
  | [] => EmptyString
  | n :: r => String (ascii_of_N n) (bs r)
  end.

(** strict order on Q as a boolean *)
Definition Qltb (a b : Q) : bool := match Qcompare a b with Lt => true | _ => false end.

(** ** Values of decimals *)
Definition pow10Q (e : Z) : Q := Qpower (inject_Z 10) e.
Definition pow2Q (e : Z) : Q := Qpower (inject_Z 2) e.
Definition dq (d : dec) : Q := (inject_Z (dmant d) * pow10Q (dexp d))%Q.
Definition dec_of_Z (z : Z) : dec := Dec z 0.

(** ** binary64: the value of the float64 nearest to a rational (round to nearest, ties to even).
    This is what strconv.ParseFloat (correctly rounded) and a float64 division compute. *)
Inductive fl :=
| FNum (q : Q)        (* a finite float64, as the exact rational it denotes *)
| FInf (neg : bool).  (* overflow: ParseFloat reports a range error, arithmetic yields an infinity *)

(** nearest integer to n/d (d > 0), ties to even *)
Definition round_half_even (n : Z) (d : Z) : Z :=
  let f := n / d in
  let r2 := 2 * (n - f * d) in
  if r2 <? d then f
  else if d <? r2 then f + 1
  else if Z.even f then f else f + 1.

(** floor (log2 (n/d)) for n, d > 0 *)
Definition ilog2_frac (n d : Z) : Z :=
  let e0 := Z.log2 n - Z.log2 d in
  if 0 <=? e0
  then (if d * 2 ^ e0 <=? n then e0 else e0 - 1)
  else (if d <=? n * 2 ^ (- e0) then e0 else e0 - 1).

Definition f64_pos (n d : Z) : fl :=
  let e := ilog2_frac n d in
  let k := Z.max (e - 52) (-1074) in
  let m := if 0 <=? k then round_half_even n (d * 2 ^ k) else round_half_even (n * 2 ^ (- k)) d in
  let r := (inject_Z m * pow2Q k)%Q in
  if Qle_bool (pow2Q 1024) r then FInf false else FNum (Qred r).

Definition f64 (q : Q) : fl :=
  let n := Qnum q in
  let d := Zpos (Qden q) in
  if n =? 0 then FNum 0%Q
  else if 0 <? n then f64_pos n d
  else match f64_pos (- n) d with
       | FNum r => FNum (Qred (- r))
       | FInf _ => FInf true
       end.

Definition f64_dec (d : dec) : fl := f64 (dq d).

Definition fl_eqb (a b : fl) : bool :=
  match a, b with
  | FNum x, FNum y => Qeq_bool x y
  | FInf s, FInf t => Bool.eqb s t
  | _, _ => false
  end.

(** the float64 images of two decimals coincide (Go compares / stores the images) *)
Definition dec_feqb (a b : dec) : bool := fl_eqb (f64_dec a) (f64_dec b).

(** [uint(f)] for a float64 [f], as compiled for amd64 by the Go toolchain in use (out of range
    conversions are implementation defined; the rule below is the observed one, see the C16 harness) *)
Definition go_uint_of_float (q : Q) : Z :=
  let t := Z.quot (Qnum q) (Zpos (Qden q)) in
  if Qle_bool 0%Q q then (if Qle_bool (pow2Q 64) q then 2 ^ 63 else t)
  else if Qle_bool (- pow2Q 63)%Q q then (if t =? 0 then 0 else 2 ^ 64 + t)
  else 2 ^ 63.

(** ** strconv.ParseInt(s, 10, 64) / strconv.Atoi / strconv.ParseUint(s, 10, 64) *)
Definition digit_of (a : ascii) : option Z :=
  let n := Z.of_N (N_of_ascii a) in
  if (48 <=? n) && (n <=? 57) then Some (n - 48) else None.

Fixpoint digits_val (s : string) (acc : Z) : option Z :=
  match s with
  | EmptyString => Some acc
  | String a r => match digit_of a with
                  | Some d => digits_val r (acc * 10 + d)
                  | None => None
                  end
  end.

Definition parse_uint (s : string) : option Z :=
  match s with
  | EmptyString => None
  | _ => match digits_val s 0 with
         | Some v => if v <? 2 ^ 64 then Some v else None
         | None => None
         end
  end.

Definition parse_int (s : string) : option Z :=
  match s with
  | EmptyString => None
  | String a r =>
      let n := N_of_ascii a in
      if N.eqb n 45 (* '-' *) then
        match r with
        | EmptyString => None
        | _ => match digits_val r 0 with
               | Some v => if v <=? 2 ^ 63 then Some (- v) else None
               | None => None
               end
        end
      else if N.eqb n 43 (* '+' *) then
        match r with
        | EmptyString => None
        | _ => match digits_val r 0 with
               | Some v => if v <? 2 ^ 63 then Some v else None
               | None => None
               end
        end
      else match digits_val s 0 with
           | Some v => if v <? 2 ^ 63 then Some v else None
           | None => None
           end
  end.

(** decimal text of an integer (strconv.Itoa / the way encoding/json prints a uint) *)
Fixpoint pos_digits (fuel : nat) (z : Z) (acc : string) : string :=
  match fuel with
  | O => acc
  | S f => let d := ascii_of_N (Z.to_N (48 + z mod 10)) in
           if z <? 10 then String d acc else pos_digits f (z / 10) (String d acc)
  end.
Definition itoa (z : Z) : string :=
  if z <? 0 then String "-"%char (pos_digits (S (Z.to_nat (Z.log2 (- z)))) (- z) EmptyString)
  else pos_digits (S (Z.to_nat (Z.log2 z))) z EmptyString.

(** ** Small string helpers *)
Definition lower_ascii (a : ascii) : ascii :=
  let n := N_of_ascii a in
  if (N.leb 65 n) && (N.leb n 90) then ascii_of_N (n + 32) else a.
Fixpoint to_lower (s : string) : string :=
  match s with EmptyString => EmptyString | String a r => String (lower_ascii a) (to_lower r) end.

Fixpoint has_prefix (p s : string) : bool :=
  match p, s with
  | EmptyString, _ => true
  | String a p', String b s' => Ascii.eqb a b && has_prefix p' s'
  | _, EmptyString => false
  end.

Fixpoint drop_prefix (p s : string) : option string :=
  match p, s with
  | EmptyString, _ => Some s
  | String a p', String b s' => if Ascii.eqb a b then drop_prefix p' s' else None
  | _, EmptyString => None
  end.

Fixpoint contains_char (c : ascii) (s : string) : bool :=
  match s with EmptyString => false | String a r => Ascii.eqb a c || contains_char c r end.

(** split at every occurrence of [c] (strings.Split) *)
Fixpoint split_on (c : ascii) (s : string) : list string :=
  match s with
  | EmptyString => [EmptyString]
  | String a r =>
      if Ascii.eqb a c then EmptyString :: split_on c r
      else match split_on c r with
           | [] => [String a EmptyString]
           | h :: t => String a h :: t
           end
  end.

Fixpoint join_with (c : ascii) (l : list string) : string :=
  match l with
  | [] => EmptyString
  | [x] => x
  | x :: r => append x (String c (join_with c r))
  end.

(** ** Objects *)
Definition obj := list (string * json).

(** all values bound to key [k], in document order *)
Fixpoint occurrences (k : string) (o : obj) : list json :=
  match o with
  | [] => []
  | (k', v) :: r => if String.eqb k k' then v :: occurrences k r else occurrences k r
  end.

(** Go map semantics of a decoded object: the last binding of a key wins *)
Fixpoint lookup_last (k : string) (o : obj) : option json :=
  match o with
  | [] => None
  | (k', v) :: r => match lookup_last k r with
                    | Some w => Some w
                    | None => if String.eqb k k' then Some v else None
                    end
  end.

(** insertion into a key-sorted association list, replacing an existing binding (map assignment
    followed by encoding/json's sorted output of map keys) *)
Fixpoint insert_sorted (k : string) (v : json) (o : obj) : obj :=
  match o with
  | [] => [(k, v)]
  | (k', v') :: r =>
      match String.compare k k' with
      | Eq => (k, v) :: r
      | Lt => (k, v) :: (k', v') :: r
      | Gt => (k', v') :: insert_sorted k v r
      end
  end.

(** a Go map built from the members in order (the last binding of a key wins), printed with sorted keys *)
Definition sort_dedupe (o : obj) : obj :=
  fold_left (fun acc kv => insert_sorted (fst kv) (snd kv) acc) o [].

(** the value as Go holds it after decoding into interface{} and prints it again: objects are maps
    (last duplicate wins, keys sorted on output); recursively *)
Fixpoint canon (j : json) : json :=
  match j with
  | JArr l => JArr (map canon l)
  | JObj l => JObj (sort_dedupe (map (fun kv => (fst kv, canon (snd kv))) l))
  | _ => j
  end.
Definition canon_obj (o : obj) : obj :=
  match canon (JObj o) with JObj l => l | _ => [] end.

(** every number of the tree has a finite float64 image (otherwise the lexer reports a range error) *)
Fixpoint nums_finite (j : json) : bool :=
  match j with
  | JNum d => match f64_dec d with FNum _ => true | FInf _ => false end
  | JArr l => forallb nums_finite l
  | JObj l => forallb (fun kv => nums_finite (snd kv)) l
  | _ => true
  end.

(** ** Equality of trees: exact, and up to the float64 image of numbers *)
Definition dec_eqb (a b : dec) : bool := (dmant a =? dmant b) && (dexp a =? dexp b).

Fixpoint json_eqb_with (numeq : dec -> dec -> bool) (a b : json) : bool :=
  match a, b with
  | JNull, JNull => true
  | JBool x, JBool y => Bool.eqb x y
  | JNum x, JNum y => numeq x y
  | JStr x, JStr y => String.eqb x y
  | JArr x, JArr y =>
      (fix go (x y : list json) : bool :=
         match x, y with
         | [], [] => true
         | a :: x', b :: y' => json_eqb_with numeq a b && go x' y'
         | _, _ => false
         end) x y
  | JObj x, JObj y =>
      (fix go (x y : list (string * json)) : bool :=
         match x, y with
         | [], [] => true
         | (k, a) :: x', (k', b) :: y' => String.eqb k k' && json_eqb_with numeq a b && go x' y'
         | _, _ => false
         end) x y
  | _, _ => false
  end.
Definition json_eqb := json_eqb_with dec_eqb.
(** equal as Go values: numbers are compared by their float64 images *)
Definition json_feqb := json_eqb_with dec_feqb.
