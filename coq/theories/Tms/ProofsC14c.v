(** * C14 — totality of the validation for DECODED documents: the point of origin of every matrix is present *)
From Coq Require Import ZArith QArith String List Bool Lia.
From Texel Require Import Tms.Json Tms.Model Tms.ProofsC14 Tms.ProofsC14b Tms.ProofsC16b Tms.ProofsC16c.
Import ListNotations.
Open Scope Z_scope.

Lemma decoded_origins_present : forall j t, decodeTMS j = Ok t -> origins_present (t_matrices t).
Proof.
  intros j t H. apply decode_wf in H. destruct H as [_ [_ [_ [_ HW]]]].
  intros k m HI E. rewrite Forall_forall in HW. specialize (HW (k, m) HI). cbn [snd] in HW.
  destruct HW as [_ [_ [_ [p [HO _]]]]]. congruence.
Qed.

Theorem validate_total_decoded_lemma : forall j t ids, decodeTMS j = Ok t ->
  (forall d r, t_crs t <> CrsRef d r) ->
  (forall root d, find_tm 0 (t_matrices t) = Some root -> max_list ids = Some d ->
     0 <= d /\ d + Z.log2 (tm_tileWidth root) + 4 < 64) ->
  validate t ids <> VPanic.
Proof.
  intros j t ids H HC HR. apply validate_total_lemma; [eapply decoded_origins_present; eauto|exact HC|].
  intros root d Hroot Hd. destruct (HR root d Hroot Hd) as [H1 H2]. split; [|split; assumption].
  (* a decoded tile matrix has a tile width of at least 1 (validator: required, min=1) *)
  apply decode_wf in H. destruct H as [_ [_ [_ [_ HW]]]]. rewrite Forall_forall in HW.
  assert (HI : In (0, root) (t_matrices t)) by (apply find_tm_in; exact Hroot).
  specialize (HW _ HI). cbn [snd] in HW. destruct HW as [HV _].
  unfold tm_valid in HV. repeat (apply andb_true_iff in HV; destruct HV as [HV ?]).
  match goal with X : (1 <=? tm_tileWidth root) = true |- _ => apply Z.leb_le in X; exact X end.
Qed.
