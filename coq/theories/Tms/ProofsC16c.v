(** * C16 — every decoded value is well formed; canonical payloads; the general round trip *)
From Coq Require Import ZArith QArith String Ascii List Bool Lia Sorted OrderedTypeEx.
From Texel Require Import Tms.Json Tms.Model Tms.ProofsC16b.
From Texel.Gen Require Import ConstsGen TmsData.
Import ListNotations.
Open Scope string_scope.
Open Scope Z_scope.
Open Scope list_scope.

(** ** Induction on JSON trees *)
Section JsonInd.
  Variable P : json -> Prop.
  Hypothesis Hnull : P JNull.
  Hypothesis Hbool : forall b, P (JBool b).
  Hypothesis Hnum : forall d, P (JNum d).
  Hypothesis Hstr : forall s, P (JStr s).
  Hypothesis Harr : forall l, Forall P l -> P (JArr l).
  Hypothesis Hobj : forall l, Forall (fun kv => P (snd kv)) l -> P (JObj l).

  Fixpoint json_ind' (j : json) : P j :=
    match j with
    | JNull => Hnull
    | JBool b => Hbool b
    | JNum d => Hnum d
    | JStr s => Hstr s
    | JArr l => Harr l ((fix go (l : list json) : Forall P l :=
                           match l with
                           | [] => Forall_nil _
                           | x :: r => Forall_cons x (json_ind' x) (go r)
                           end) l)
    | JObj l => Hobj l ((fix go (l : list (string * json)) : Forall (fun kv => P (snd kv)) l :=
                           match l with
                           | [] => Forall_nil _
                           | kv :: r => Forall_cons kv (json_ind' (snd kv)) (go r)
                           end) l)
    end.
End JsonInd.

(** ** Sorted objects *)
Definition klt (a b : string) : Prop := String.compare a b = Lt.
Definition olt (a b : string * json) : Prop := klt (fst a) (fst b).
Definition sorted_obj (o : obj) : Prop := StronglySorted olt o.

Lemma klt_trans : forall a b c, klt a b -> klt b c -> klt a c.
Proof.
  unfold klt. intros a b c H1 H2. apply String_as_OT.cmp_lt in H1. apply String_as_OT.cmp_lt in H2.
  apply String_as_OT.cmp_lt. eapply String_as_OT.lt_trans; eauto.
Qed.

Lemma compare_refl : forall a, String.compare a a = Eq.
Proof. intros a. apply String_as_OT.cmp_eq. reflexivity. Qed.

Lemma compare_gt_lt : forall a b, String.compare a b = Gt -> klt b a.
Proof. intros a b H. unfold klt. rewrite String.compare_antisym, H. reflexivity. Qed.

Lemma klt_neq : forall a b, klt a b -> String.eqb a b = false.
Proof.
  intros a b H. destruct (String.eqb a b) eqn:E; auto. apply String.eqb_eq in E. subst b.
  unfold klt in H. rewrite compare_refl in H. discriminate.
Qed.

Lemma in_insert_sorted : forall k v o e, In e (insert_sorted k v o) -> e = (k, v) \/ In e o.
Proof.
  intros k v o. induction o as [|[k' v'] r IH]; intros e H; simpl in H.
  - destruct H as [H|[]]; auto.
  - destruct (String.compare k k').
    + destruct H as [H|H]; auto. right; right; exact H.
    + destruct H as [H|H]; auto.
    + destruct H as [H|H]; [right; left; exact H|]. destruct (IH _ H); auto. right; right; assumption.
Qed.

Lemma insert_sorted_sorted : forall k v o, sorted_obj o -> sorted_obj (insert_sorted k v o).
Proof.
  intros k v o H. induction H as [|[k' v'] r HS IH HF]; simpl.
  - constructor; constructor.
  - destruct (String.compare k k') eqn:E.
    + apply String.compare_eq_iff in E. subst k'. constructor; auto.
    + constructor; [constructor; auto|]. constructor; [exact E|].
      rewrite Forall_forall in *. intros e He. specialize (HF e He). unfold olt in *. cbn [fst] in *. eapply klt_trans; eauto.
    + constructor; auto. rewrite Forall_forall in *. intros e He. apply in_insert_sorted in He. destruct He as [He|He].
      * subst e. unfold olt. cbn [fst]. apply compare_gt_lt. exact E.
      * apply HF; exact He.
Qed.

Lemma insert_sorted_last : forall k v o, Forall (fun e => klt (fst e) k) o -> insert_sorted k v o = o ++ [(k, v)].
Proof.
  intros k v o H. induction H as [|[k' v'] r Hk _ IH]; simpl; auto.
  cbn [fst] in Hk. unfold klt in Hk. rewrite String.compare_antisym, Hk. cbn [CompOpp]. rewrite IH. reflexivity.
Qed.

Definition ins (acc : obj) (kv : string * json) : obj := insert_sorted (fst kv) (snd kv) acc.

Lemma fold_ins_sorted : forall o acc, sorted_obj acc -> sorted_obj (fold_left ins o acc).
Proof. induction o as [|[k v] r IH]; intros acc H; simpl; auto. apply IH. apply insert_sorted_sorted. exact H. Qed.

Lemma sort_dedupe_sorted : forall o, sorted_obj (sort_dedupe o).
Proof. intros o. unfold sort_dedupe. apply (fold_ins_sorted o []). constructor. Qed.

Lemma sorted_app_inv : forall a b, sorted_obj (a ++ b) -> sorted_obj b /\ forall x y, In x a -> In y b -> olt x y.
Proof.
  induction a as [|e r IH]; intros b H; simpl in *.
  - split; auto. intros x y [].
  - apply StronglySorted_inv in H. destruct H as [HS HF]. destruct (IH _ HS) as [Sb Hab]. split; auto.
    intros x y [Hx|Hx] Hy.
    + subst x. rewrite Forall_forall in HF. apply HF. apply in_or_app. right; exact Hy.
    + apply Hab; assumption.
Qed.

Lemma fold_ins_sorted_id : forall o acc, sorted_obj (acc ++ o) -> fold_left ins o acc = acc ++ o.
Proof.
  induction o as [|[k v] r IH]; intros acc H; simpl.
  - rewrite app_nil_r. reflexivity.
  - unfold ins at 2. cbn [fst snd]. rewrite insert_sorted_last.
    + rewrite IH; rewrite <- app_assoc; [reflexivity|exact H].
    + apply Forall_forall. intros e He. destruct (sorted_app_inv _ _ H) as [_ Hab].
      apply (Hab e (k, v) He). left; reflexivity.
Qed.

Lemma sort_dedupe_id : forall o, sorted_obj o -> sort_dedupe o = o.
Proof. intros o H. unfold sort_dedupe. apply (fold_ins_sorted_id o []). exact H. Qed.

Lemma in_fold_ins : forall o acc e, In e (fold_left ins o acc) -> In e acc \/ In e o.
Proof.
  induction o as [|[k v] r IH]; intros acc e H; simpl in *; auto.
  apply IH in H. destruct H as [H|H]; auto. unfold ins in H. cbn [fst snd] in H. apply in_insert_sorted in H.
  destruct H as [H|H]; auto.
Qed.

Lemma in_sort_dedupe : forall o e, In e (sort_dedupe o) -> In e o.
Proof. intros o e H. unfold sort_dedupe in H. apply in_fold_ins in H. destruct H as [[]|H]; exact H. Qed.

(** ** canon is idempotent *)
Definition cf (kv : string * json) : string * json := (fst kv, canon (snd kv)).

Lemma canon_obj_unfold : forall l, canon (JObj l) = JObj (sort_dedupe (map cf l)).
Proof. reflexivity. Qed.

Theorem canon_idem : forall j, canon (canon j) = canon j.
Proof.
  apply json_ind'; try reflexivity.
  - intros l H. cbn [canon]. f_equal. rewrite map_map. apply map_ext_in. intros x Hx.
    rewrite Forall_forall in H. apply H. exact Hx.
  - intros l H. rewrite !canon_obj_unfold. f_equal.
    assert (E : map cf (sort_dedupe (map cf l)) = sort_dedupe (map cf l)).
    { rewrite <- (map_id (sort_dedupe (map cf l))) at 2. apply map_ext_in. intros [k v] He.
      apply in_sort_dedupe in He. apply in_map_iff in He. destruct He as [[k0 v0] [E0 H0]].
      unfold cf in E0. cbn [fst snd] in E0. inversion E0; subst. unfold cf. cbn [fst snd]. f_equal.
      rewrite Forall_forall in H. apply (H (k, v0) H0). }
    rewrite E. apply sort_dedupe_id. apply sort_dedupe_sorted.
Qed.

Lemma canon_obj_eq : forall w, canon_obj w = sort_dedupe (map cf w).
Proof. reflexivity. Qed.

Lemma canon_obj_idem : forall w, canon_obj (canon_obj w) = canon_obj w.
Proof.
  intros w. rewrite !canon_obj_eq.
  assert (H := canon_idem (JObj w)). rewrite !canon_obj_unfold in H. injection H as H1. exact H1.
Qed.

(** ** lookups in a canonical object *)
Lemma lookup_last_insert_sorted : forall k k' v o, sorted_obj o ->
  lookup_last k (insert_sorted k' v o) = if String.eqb k k' then Some v else lookup_last k o.
Proof.
  intros k k' v o H. induction H as [|[k0 v0] r HS IH HF]; simpl.
  - destruct (String.eqb k k'); reflexivity.
  - assert (HR : forall kk, Forall (fun e => klt kk (fst e)) r -> String.eqb k kk = true -> lookup_last k r = None).
    { intros kk HK E. apply String.eqb_eq in E. subst kk. clear IH HS HF. induction r as [|[k1 v1] r1 IH1]; auto.
      apply Forall_cons_iff in HK. destruct HK as [HK1 HK2]. cbn [fst] in HK1. simpl. rewrite (IH1 HK2).
      rewrite (klt_neq _ _ HK1). reflexivity. }
    destruct (String.compare k' k0) eqn:E.
    + apply String.compare_eq_iff in E. subst k0. simpl.
      destruct (String.eqb k k') eqn:E1.
      * rewrite (HR k' HF E1). reflexivity.
      * destruct (lookup_last k r); reflexivity.
    + simpl. destruct (String.eqb k k') eqn:E1.
      * assert (HF' : Forall (fun e : string * json => klt k' (fst e)) r).
        { rewrite Forall_forall in *. intros e He. specialize (HF e He). unfold olt in HF. cbn [fst] in HF. eapply klt_trans; eauto. }
        rewrite (HR k' HF' E1).
        apply String.eqb_eq in E1. subst k'. rewrite (klt_neq _ _ E). reflexivity.
      * destruct (lookup_last k r); [reflexivity|]. destruct (String.eqb k k0); reflexivity.
    + simpl. rewrite IH. destruct (String.eqb k k') eqn:E1; [reflexivity|].
      destruct (lookup_last k r); reflexivity.
Qed.

Lemma lookup_last_fold_ins : forall k o acc, sorted_obj acc ->
  lookup_last k (fold_left ins o acc) = match lookup_last k o with Some v => Some v | None => lookup_last k acc end.
Proof.
  intros k o. induction o as [|[k' v] r IH]; intros acc H; simpl.
  - reflexivity.
  - rewrite IH by (apply insert_sorted_sorted; exact H).
    destruct (lookup_last k r); [reflexivity|]. unfold ins. cbn [fst snd].
    rewrite lookup_last_insert_sorted by exact H. destruct (String.eqb k k'); reflexivity.
Qed.

Lemma lookup_last_sort_dedupe : forall k o, lookup_last k (sort_dedupe o) = lookup_last k o.
Proof.
  intros k o. unfold sort_dedupe. rewrite lookup_last_fold_ins by constructor.
  destruct (lookup_last k o); reflexivity.
Qed.

Lemma lookup_last_map_cf : forall k o, lookup_last k (map cf o) = option_map canon (lookup_last k o).
Proof.
  intros k o. induction o as [|[k' v] r IH]; simpl; auto.
  rewrite IH. destruct (lookup_last k r); simpl; auto. destruct (String.eqb k k'); reflexivity.
Qed.

Lemma lookup_last_canon_obj : forall k w, lookup_last k (canon_obj w) = option_map canon (lookup_last k w).
Proof.
  intros k w. rewrite canon_obj_eq, lookup_last_sort_dedupe. apply lookup_last_map_cf.
Qed.

Lemma projjson_ok_canon : forall w, projjson_ok (canon_obj w) = projjson_ok w.
Proof.
  intros w. unfold projjson_ok. rewrite lookup_last_canon_obj.
  destruct (lookup_last "id" w) as [[| | | |l|i]|]; try reflexivity.
  cbn [option_map]. rewrite canon_obj_unfold. rewrite !lookup_last_sort_dedupe, !lookup_last_map_cf.
  destruct (lookup_last "authority" i) as [[| | | | |]|]; destruct (lookup_last "code" i) as [[| | | | |]|]; reflexivity.
Qed.

(** ** finiteness of numbers is kept by canon *)
Lemma nums_finite_canon : forall j, nums_finite j = true -> nums_finite (canon j) = true.
Proof.
  apply (json_ind' (fun j => nums_finite j = true -> nums_finite (canon j) = true)); try (intros; assumption).
  - intros l H HF. cbn [canon nums_finite] in *. rewrite forallb_forall in *. intros x Hx.
    apply in_map_iff in Hx. destruct Hx as [y [E Hy]]. subst x. rewrite Forall_forall in H. apply H; auto.
  - intros l H HF. rewrite canon_obj_unfold. cbn [nums_finite] in *. rewrite forallb_forall in *. intros [k v] Hx.
    apply in_sort_dedupe in Hx. apply in_map_iff in Hx. destruct Hx as [[k0 v0] [E Hy]].
    unfold cf in E. cbn [fst snd] in *. inversion E; subst. rewrite Forall_forall in H. apply (H (k, v0) Hy). apply (HF (k, v0) Hy).
Qed.

Lemma nums_finite_canon_obj : forall w, nums_finite (JObj w) = true -> nums_finite (JObj (canon_obj w)) = true.
Proof.
  intros w H. apply nums_finite_canon in H. rewrite canon_obj_unfold in H. rewrite canon_obj_eq. exact H.
Qed.

Lemma lookup_last_in : forall k o v, lookup_last k o = Some v -> In (k, v) o.
Proof.
  intros k o v. induction o as [|[k' v'] r IH]; simpl; [discriminate|].
  destruct (lookup_last k r) eqn:E.
  - intro H. inversion H; subst. right. apply IH. reflexivity.
  - destruct (String.eqb k k') eqn:E1; [|discriminate]. intro H. inversion H; subst. apply String.eqb_eq in E1. subst. left; reflexivity.
Qed.

Lemma nums_finite_member : forall k o v, nums_finite (JObj o) = true -> lookup_last k o = Some v -> nums_finite v = true.
Proof.
  intros k o v H L. apply lookup_last_in in L. cbn [nums_finite] in H. rewrite forallb_forall in H. apply (H (k, v) L).
Qed.

(** ** Every decoded value is well formed *)
Lemma finite_dzero : finite dzero.
Proof. eexists. vm_compute. reflexivity. Qed.

Lemma decodeCrsURI_inv : forall o a c, decodeCrsURI o a = Some c ->
  exists d u, c = CrsURI d u a /\ (exists r, parse_crs_uri u = Some r) /\ crs_description o = Some d.
Proof.
  intros o a c H. unfold decodeCrsURI in H. destruct (crs_description o) as [d|]; [|discriminate].
  destruct (lookup_last "uri" o) as [[| | |u| |]|]; try discriminate.
  destruct (parse_crs_uri u) as [r|] eqn:E; [|discriminate]. inversion H; subst. exists d, u. repeat split; eauto.
Qed.

Lemma decodeCrsWKT_inv : forall o c, decodeCrsWKT o = Some c ->
  exists d w, c = CrsWKT d (canon_obj w) /\ lookup_last "wkt" o = Some (JObj w) /\ projjson_ok w = true.
Proof.
  intros o c H. unfold decodeCrsWKT in H. destruct (crs_description o) as [d|]; [|discriminate].
  destruct (lookup_last "wkt" o) as [[| | | | |w]|]; try discriminate.
  destruct (projjson_ok w) eqn:E; [|discriminate]. inversion H; subst. exists d, w. auto.
Qed.

Lemma decodeCrsRef_inv : forall o c, decodeCrsRef o = Some c ->
  exists d r, c = CrsRef d (canon_obj r) /\ lookup_last "referenceSystem" o = Some (JObj r).
Proof.
  intros o c H. unfold decodeCrsRef in H. destruct (crs_description o) as [d|]; [|discriminate].
  destruct (lookup_last "referenceSystem" o) as [[| | | | |r]|]; try discriminate.
  inversion H; subst. exists d, r. auto.
Qed.

Lemma try_crs_wf : forall o a c, nums_finite (JObj o) = true -> (a = true -> crs_description o = Some "") ->
  match decodeCrsURI o a with
  | Some c => Ok c
  | None => match decodeCrsWKT o with
            | Some c => Ok c
            | None => match decodeCrsRef o with Some c => Ok c | None => Error end
            end
  end = Ok c -> crs_wf c.
Proof.
  intros o a c HN HA H.
  destruct (decodeCrsURI o a) as [c1|] eqn:E1.
  - inversion H; subst. apply decodeCrsURI_inv in E1. destruct E1 as [d [u [E [HP HD]]]]. subst c. cbn [crs_wf].
    split; auto. intro Ha. specialize (HA Ha). rewrite HA in HD. inversion HD. reflexivity.
  - destruct (decodeCrsWKT o) as [c2|] eqn:E2.
    + inversion H; subst. apply decodeCrsWKT_inv in E2. destruct E2 as [d [w [E [HL HP]]]]. subst c. cbn [crs_wf].
      split; [rewrite projjson_ok_canon; exact HP|]. split; [apply canon_obj_idem|].
      apply nums_finite_canon_obj. eapply nums_finite_member; eauto.
    + destruct (decodeCrsRef o) as [c3|] eqn:E3; [|discriminate].
      inversion H; subst. apply decodeCrsRef_inv in E3. destruct E3 as [d [r [E HL]]]. subst c. cbn [crs_wf].
      split; [apply canon_obj_idem|]. apply nums_finite_canon_obj. eapply nums_finite_member; eauto.
Qed.

Theorem decodeCRS_wf : forall j c, nums_finite j = true -> decodeCRS j = Ok c -> crs_wf c.
Proof.
  intros j c HN H. unfold decodeCRS in H. destruct j as [| | |s| |o]; try discriminate.
  - eapply try_crs_wf; [| |exact H]; [reflexivity|intros _; reflexivity].
  - eapply try_crs_wf; [exact HN| |exact H]. intro; discriminate.
Qed.

(** tile matrices *)
Lemma conv_point_finite : forall v p, conv_point v = CVal p -> finite (fst p) /\ finite (snd p).
Proof.
  intros v p H. unfold conv_point in H.
  destruct v as [| | | |l|]; try discriminate. destruct l as [|x [|y [|z r]]]; try discriminate.
  - destruct x; discriminate.
  - destruct x; try discriminate. destruct y; try discriminate.
    destruct (f64_dec d) as [qa|] eqn:Ea; [|discriminate]. destruct (f64_dec d0) as [qb|] eqn:Eb; [|discriminate].
    inversion H; subst. cbn [fst snd]. split; eexists; eassumption.
  - destruct x; try discriminate. destruct y; discriminate.
Qed.

Lemma conv_float_cval_finite : forall v, is_hard (conv_float v) = false -> finite (cval (conv_float v) dzero).
Proof.
  intros v H. unfold conv_float in *. destruct v; simpl in *; try discriminate; try apply finite_dzero.
  destruct (f64_dec d) as [q|] eqn:E; simpl in *; [exists q; exact E|discriminate].
Qed.

Lemma member_float_finite : forall k o, is_hard (member k conv_float o) = false -> finite (cval (member k conv_float o) dzero).
Proof.
  intros k o H. unfold member in *. destruct (lookup_last k o); [apply conv_float_cval_finite; exact H|apply finite_dzero].
Qed.

Lemma decodeTM_inv : forall o m, decodeTM o = Ok m -> uints_ok o = true /\ decodeTM_fields o = Ok m.
Proof. intros o m H. unfold decodeTM in H. destruct (uints_ok o); [auto|discriminate]. Qed.

Theorem decodeTM_wf : forall o m, decodeTM o = Ok m -> tm_wf m.
Proof.
  intros o m H. apply decodeTM_inv in H. destruct H as [_ H]. unfold decodeTM_fields in H.
  match type of H with (if ?hs then _ else _) = _ => destruct hs eqn:EH end; [discriminate|].
  apply orb_false_iff in EH. destruct EH as [EHard ESoft].
  repeat (apply orb_false_iff in EHard; destruct EHard as [EHard ?]).
  match type of H with (if tm_valid ?mm then _ else _) = _ => destruct (tm_valid mm) eqn:EV end; [|discriminate].
  inversion H; subst. clear H. unfold tm_wf. split; [exact EV|].
  cbn [tm_scaleDenominator tm_cellSize tm_origin].
  split; [apply member_float_finite; assumption|]. split; [apply member_float_finite; assumption|].
  unfold tm_valid in EV. cbn [tm_origin] in EV.
  destruct (copt (member "pointOfOrigin" conv_point o)) as [p|] eqn:EO.
  + exists p. split; [reflexivity|]. unfold copt in EO. unfold member in *.
    destruct (lookup_last "pointOfOrigin" o) as [v|]; [|discriminate].
    destruct (conv_point v) eqn:EC; try discriminate. inversion EO; subst. eapply conv_point_finite; eauto.
  + exfalso. repeat (apply andb_true_iff in EV; destruct EV as [EV ?]). discriminate.
Qed.

Lemma insert_tm_in : forall k m l e, In e (insert_tm k m l) -> e = (k, m) \/ In e l.
Proof.
  intros k m l. induction l as [|[k' m'] r IH]; intros e H; simpl in H.
  - destruct H as [H|[]]; auto.
  - destruct (k =? k').
    + destruct H as [H|H]; auto. right; right; exact H.
    + destruct (k <? k').
      * destruct H as [H|H]; auto.
      * destruct H as [H|H]; [right; left; exact H|]. destruct (IH _ H); auto. right; right; assumption.
Qed.

Lemma insert_tm_ok : forall k m l, ms_ok l -> parse_int (tm_id m) = Some k -> ms_ok (insert_tm k m l).
Proof.
  intros k m l [HS HF] HP. induction l as [|[k' m'] r IH]; simpl.
  - split; constructor; auto; constructor.
  - apply StronglySorted_inv in HS. destruct HS as [HSr HSk].
    assert (HFk := Forall_inv HF). assert (HFr := Forall_inv_tail HF).
    destruct (Z.eqb_spec k k').
    + subst k'. split; constructor; auto.
    + destruct (Z.ltb_spec k k').
      * split.
        -- constructor; [constructor; auto|]. constructor; [exact H|].
           rewrite Forall_forall in *. intros e He. specialize (HSk e He). unfold key_lt in *. cbn [fst] in *. lia.
        -- constructor; auto.
      * destruct (IH HSr HFr) as [IS IF]. split.
        -- constructor; auto. rewrite Forall_forall in *. intros e He. apply insert_tm_in in He. destruct He as [He|He].
           ++ subst e. unfold key_lt. cbn [fst]. lia.
           ++ apply HSk; exact He.
        -- constructor; auto.
Qed.

Lemma insert_tm_forall : forall (P : tileMatrix -> Prop) k m l, Forall (fun e => P (snd e)) l -> P m -> Forall (fun e => P (snd e)) (insert_tm k m l).
Proof.
  intros P k m l H Hm. rewrite Forall_forall in *. intros e He. apply insert_tm_in in He. destruct He as [He|He]; [subst e; exact Hm|auto].
Qed.

Theorem decodeTMs_wf : forall l acc ms, ms_ok acc -> Forall (fun e => tm_wf (snd e)) acc ->
  decodeTMs l acc = Ok ms -> ms_ok ms /\ Forall (fun e => tm_wf (snd e)) ms.
Proof.
  induction l as [|x r IH]; intros acc ms HA HW H; simpl in H.
  - inversion H; subst. auto.
  - destruct x; try discriminate. destruct (decodeTM l) as [m| | |] eqn:ED; try discriminate. cbn [bind] in H.
    destruct (parse_int (tm_id m)) as [k|] eqn:EP; [|discriminate].
    eapply IH; [| |exact H].
    + apply insert_tm_ok; assumption.
    + apply insert_tm_forall; [assumption|]. eapply decodeTM_wf; eauto.
Qed.

(** streaming folds keep an invariant *)
Lemma foldO_inv : forall {A S} (f : S -> A -> outcome S) (P : S -> Prop),
  (forall s x s', P s -> f s x = Ok s' -> P s') ->
  forall l s0 s, P s0 -> foldO f l s0 = Ok s -> P s.
Proof.
  intros A S f P Hstep. induction l as [|x r IH]; intros s0 s H0 H; simpl in H.
  - inversion H; subst; exact H0.
  - destruct (f s0 x) as [s1| | |] eqn:E; try discriminate. cbn [bind] in H. eapply IH; [|exact H]. eapply Hstep; eauto.
Qed.

Definition bb_inv (a : bbacc) : Prop :=
  (forall p, ba_ll a = Some p -> finite (fst p) /\ finite (snd p)) /\
  (forall p, ba_ur a = Some p -> finite (fst p) /\ finite (snd p)) /\
  (forall v, ba_crs a = Some v -> nums_finite v = true).

Lemma bb_step_inv : forall a kv a', bb_inv a -> bb_step a kv = Ok a' -> bb_inv a'.
Proof.
  intros a [k v] a' [I1 [I2 I3]] H. unfold bb_step in H.
  destruct (String.eqb k "lowerLeft").
  { destruct (conv_point v) as [p| | | |] eqn:E; try discriminate; inversion H; subst.
    split; [|split]; cbn [ba_ll ba_ur ba_crs]; [|exact I2|exact I3].
    intros pp Hp. inversion Hp; subst. eapply conv_point_finite; eauto. }
  destruct (String.eqb k "upperRight").
  { destruct (conv_point v) as [p| | | |] eqn:E; try discriminate; inversion H; subst.
    split; [|split]; cbn [ba_ll ba_ur ba_crs]; [exact I1| |exact I3].
    intros pp Hp. inversion Hp; subst. eapply conv_point_finite; eauto. }
  destruct (String.eqb k "orderedAxes").
  { destruct (conv_strs v); try discriminate; inversion H; subst; (split; [exact I1|split; [exact I2|exact I3]]). }
  destruct (nums_finite v) eqn:EN; [|discriminate].
  destruct (String.eqb k "crs"); inversion H; subst.
  - split; [exact I1|split; [exact I2|]]. cbn [ba_crs]. intros v0 Hv. inversion Hv; subst. exact EN.
  - split; [exact I1|split; [exact I2|exact I3]].
Qed.

Theorem decodeBBox_wf : forall j b, decodeBBox j = Ok b -> bbox_wf b.
Proof.
  intros j b H. unfold decodeBBox in H. destruct j as [| | | | |o]; try discriminate.
  destruct (foldO bb_step o (MkBBAcc None None None None)) as [a| | |] eqn:EF; try discriminate. cbn [bind] in H.
  assert (HI : bb_inv a).
  { eapply (foldO_inv bb_step bb_inv bb_step_inv); [|exact EF]. repeat split; cbn; intros; discriminate. }
  destruct HI as [I1 [I2 I3]].
  destruct (ba_crs a) as [cj|] eqn:EC; [|discriminate].
  destruct (decodeCRS cj) as [c| | |] eqn:ED; try discriminate. cbn [bind] in H.
  destruct (ba_ll a) as [ll|] eqn:EL; [|discriminate]. destruct (ba_ur a) as [ur|] eqn:EU; [|discriminate].
  assert (HC : crs_wf c) by (eapply decodeCRS_wf; [apply I3; reflexivity|exact ED]).
  destruct (I1 _ eq_refl) as [F1 F2]. destruct (I2 _ eq_refl) as [F3 F4].
  destruct (ba_axes a) as [ax|] eqn:EA.
  - destruct (Nat.eqb (length ax) 2) eqn:EN; [|discriminate]. inversion H; subst.
    unfold bbox_wf. cbn [bb_lowerLeft bb_upperRight bb_crs bb_orderedAxes]. repeat split; auto.
    intros l Hl. inversion Hl; subst. apply Nat.eqb_eq. exact EN.
  - inversion H; subst. unfold bbox_wf. cbn [bb_lowerLeft bb_upperRight bb_crs bb_orderedAxes]. repeat split; auto.
    intros l Hl. discriminate.
Qed.

Definition top_inv (a : topacc) : Prop :=
  (forall b, ta_bbox a = Some b -> bbox_wf b) /\ (forall v, ta_crs a = Some v -> nums_finite v = true).

Lemma top_str_inv : forall v set a a', top_inv a -> (forall s, ta_bbox (set s) = ta_bbox a /\ ta_crs (set s) = ta_crs a) ->
  top_str v set a = Ok a' -> top_inv a'.
Proof.
  intros v set a a' HI HS H. unfold top_str in H. destruct (conv_str v); try discriminate; inversion H; subst; auto.
  destruct (HS a0) as [E1 E2]. unfold top_inv. rewrite E1, E2. exact HI.
Qed.

Lemma top_strs_inv : forall v set a a', top_inv a -> (forall s, ta_bbox (set s) = ta_bbox a /\ ta_crs (set s) = ta_crs a) ->
  top_strs v set a = Ok a' -> top_inv a'.
Proof.
  intros v set a a' HI HS H. unfold top_strs in H. destruct (conv_strs v); try discriminate; inversion H; subst; auto.
  destruct (HS a0) as [E1 E2]. unfold top_inv. rewrite E1, E2. exact HI.
Qed.

Lemma top_step_inv : forall a kv a', top_inv a -> top_step a kv = Ok a' -> top_inv a'.
Proof.
  intros a [k v] a' HI H. unfold top_step in H.
  destruct (String.eqb k "id"). { eapply top_str_inv; [exact HI| |exact H]. intros; split; reflexivity. }
  destruct (String.eqb k "title"). { eapply top_str_inv; [exact HI| |exact H]. intros; split; reflexivity. }
  destruct (String.eqb k "description"). { eapply top_str_inv; [exact HI| |exact H]. intros; split; reflexivity. }
  destruct (String.eqb k "keywords"). { eapply top_strs_inv; [exact HI| |exact H]. intros; split; reflexivity. }
  destruct (String.eqb k "uri"). { eapply top_str_inv; [exact HI| |exact H]. intros; split; reflexivity. }
  destruct (String.eqb k "orderedAxes"). { eapply top_strs_inv; [exact HI| |exact H]. intros; split; reflexivity. }
  destruct (String.eqb k "wellKnownScaleSet"). { eapply top_str_inv; [exact HI| |exact H]. intros; split; reflexivity. }
  destruct HI as [I1 I2].
  destruct (String.eqb k "boundingBox").
  { destruct (decodeBBox v) as [b| | |] eqn:E; try discriminate. cbn [bind] in H. inversion H; subst.
    split; cbn [ta_bbox ta_crs]; auto. intros b0 Hb. inversion Hb; subst. eapply decodeBBox_wf; eauto. }
  destruct (nums_finite v) eqn:EN; [|discriminate].
  destruct (String.eqb k "crs").
  { inversion H; subst. split; cbn [ta_bbox ta_crs]; auto. intros v0 Hv. inversion Hv; subst. exact EN. }
  destruct (String.eqb k "tileMatrices"); inversion H; subst; split; cbn [ta_bbox ta_crs]; auto.
Qed.

Theorem decode_wf : forall j t, decodeTMS j = Ok t -> tms_wf t.
Proof.
  intros j t H. unfold decodeTMS in H. destruct j as [| | | | |o]; try discriminate.
  destruct (foldO top_step o top_empty) as [a| | |] eqn:EF; try discriminate. cbn [bind] in H.
  assert (HI : top_inv a).
  { eapply (foldO_inv top_step top_inv top_step_inv); [|exact EF]. split; cbn; intros; discriminate. }
  destruct HI as [I1 I2]. unfold decodeTop in H.
  destruct (ta_crs a) as [cj|] eqn:EC; [|discriminate].
  destruct (decodeCRS cj) as [c| | |] eqn:ED; try discriminate. cbn [bind] in H.
  destruct (ta_tms a) as [[| | | |l|]|]; try discriminate.
  destruct (decodeTMs l []) as [ms| | |] eqn:EM; try discriminate. cbn [bind] in H.
  match type of H with (if tms_valid ?tt then _ else _) = _ => destruct (tms_valid tt) eqn:EV end; [|discriminate].
  inversion H; subst. clear H.
  assert (HM : ms_ok ms /\ Forall (fun e => tm_wf (snd e)) ms).
  { eapply decodeTMs_wf; [| |exact EM]; [split; constructor|constructor]. }
  destruct HM as [HM1 HM2].
  unfold tms_wf. cbn [t_crs t_bbox t_matrices]. split; [exact EV|]. split; [eapply decodeCRS_wf; [apply I2; reflexivity|exact ED]|].
  split; [exact I1|]. split; assumption.
Qed.

(** ** The general theorems *)
Theorem decode_encode_decode_lemma : forall j t, decodeTMS j = Ok t -> tms_stable t ->
  decodeTMS (encodeTMS t) = Ok (norm_tms t).
Proof. intros j t H S. apply encode_decode; [eapply decode_wf; eauto|exact S]. Qed.

(** a boolean check of [tms_stable], for use by computation *)
Definition uint_stableb (n : Z) : bool := match conv_uint (jint n) with CVal z => z =? n | _ => false end.
Definition vmw_stableb (v : vmw) : bool := uint_stableb (v_coalesce v) && uint_stableb (v_minTileRow v) && uint_stableb (v_maxTileRow v).
Definition tm_stableb (m : tileMatrix) : bool :=
  uint_stableb (tm_tileWidth m) && uint_stableb (tm_tileHeight m) && uint_stableb (tm_matrixWidth m) && uint_stableb (tm_matrixHeight m)
  && match tm_vmw m with Some l => forallb vmw_stableb l | None => true end
  && uints_ok (collapse (tm_fields m)).
Definition tms_stableb (t : tms) : bool := forallb (fun e => tm_stableb (snd e)) (t_matrices t).

Lemma uint_stableb_spec : forall n, uint_stableb n = true -> uint_stable n.
Proof.
  intros n H. unfold uint_stableb, uint_stable in *. destruct (conv_uint (jint n)); try discriminate.
  apply Z.eqb_eq in H. subst. reflexivity.
Qed.

Lemma tms_stableb_spec : forall t, tms_stableb t = true -> tms_stable t.
Proof.
  intros t H. unfold tms_stableb, tms_stable in *. rewrite forallb_forall in H. apply Forall_forall. intros e He.
  specialize (H e He). unfold tm_stableb in H.
  apply andb_true_iff in H. destruct H as [H H6].
  apply andb_true_iff in H. destruct H as [H H5]. apply andb_true_iff in H. destruct H as [H H4].
  apply andb_true_iff in H. destruct H as [H H3]. apply andb_true_iff in H. destruct H as [H1 H2].
  unfold tm_stable. repeat split; try (apply uint_stableb_spec; assumption); try exact H6.
  intros l Hl. rewrite Hl in H5. rewrite forallb_forall in H5. apply Forall_forall. intros v Hv. specialize (H5 v Hv).
  unfold vmw_stableb in H5. apply andb_true_iff in H5. destruct H5 as [H5 H8]. apply andb_true_iff in H5. destruct H5 as [H6' H7].
  unfold vmw_stable. repeat split; apply uint_stableb_spec; assumption.
Qed.

Lemma builtin_stable_lemma : forallb (fun d => match decodeTMS (snd d) with Ok t => tms_stableb t | _ => false end) gen_tms_documents = true.
Proof. vm_compute. reflexivity. Qed.
