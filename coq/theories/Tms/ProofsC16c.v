(** * C16 — every decoded value is well formed; canonical payloads; the general round trip *)
From Coq Require Import ZArith QArith String Ascii List Bool Lia Sorted OrderedTypeEx.
From Texel Require Import Tms.Json Tms.Model Tms.ProofsC16b.
From Texel.Gen Require Import ConstsGen TmsData.
Import ListNotations.
Open Scope string_scope.
Open Scope Z_scope.
Open Scope list_scope.

(** ** Induction on JSON trees *)
Section JsonInd.
  Variable P : json -> Prop.
  Hypothesis Hnull : P JNull.
  Hypothesis Hbool : forall b, P (JBool b).
  Hypothesis Hnum : forall d, P (JNum d).
  Hypothesis Hstr : forall s, P (JStr s).
  Hypothesis Harr : forall l, Forall P l -> P (JArr l).
  Hypothesis Hobj : forall l, Forall (fun kv => P (snd kv)) l -> P (JObj l).

  Fixpoint json_ind' (j : json) : P j :=
    match j with
    | JNull => Hnull
    | JBool b => Hbool b
    | JNum d => Hnum d
    | JStr s => Hstr s
    | JArr l => Harr l ((fix go (l : list json) : Forall P l :=
                           match l with
                           | [] => Forall_nil _
                           | x :: r => Forall_cons x (json_ind' x) (go r)
                           end) l)
    | JObj l => Hobj l ((fix go (l : list (string * json)) : Forall (fun kv => P (snd kv)) l :=
                           match l with
                           | [] => Forall_nil _
                           | kv :: r => Forall_cons kv (json_ind' (snd kv)) (go r)
                           end) l)
    end.
End JsonInd.

(** ** Sorted objects *)
Definition klt (a b : string) : Prop := String.compare a b = Lt.
Definition olt (a b : string * json) : Prop := klt (fst a) (fst b).
Definition sorted_obj (o : obj) : Prop := StronglySorted olt o.

Lemma klt_trans : forall a b c, klt a b -> klt b c -> klt a c.
Proof.
  unfold klt. intros a b c H1 H2. apply String_as_OT.cmp_lt in H1. apply String_as_OT.cmp_lt in H2.
  apply String_as_OT.cmp_lt. eapply String_as_OT.lt_trans; eauto.
Qed.

Lemma compare_refl : forall a, String.compare a a = Eq.
Proof. intros a. apply String_as_OT.cmp_eq. reflexivity. Qed.

Lemma compare_gt_lt : forall a b, String.compare a b = Gt -> klt b a.
Proof. intros a b H. unfold klt. rewrite String.compare_antisym, H. reflexivity. Qed.

Lemma klt_neq : forall a b, klt a b -> String.eqb a b = false.
Proof.
  intros a b H. destruct (String.eqb a b) eqn:E; auto. apply String.eqb_eq in E. subst b.
  unfold klt in H. rewrite compare_refl in H. discriminate.
Qed.

Lemma in_insert_sorted : forall k v o e, In e (insert_sorted k v o) -> e = (k, v) \/ In e o.
Proof.
  intros k v o. induction o as [|[k' v'] r IH]; intros e H; simpl in H.
  - destruct H as [H|[]]; auto.
  - destruct (String.compare k k').
    + destruct H as [H|H]; auto. right; right; exact H.
    + destruct H as [H|H]; auto.
    + destruct H as [H|H]; [right; left; exact H|]. destruct (IH _ H); auto. right; right; assumption.
Qed.

Lemma insert_sorted_sorted : forall k v o, sorted_obj o -> sorted_obj (insert_sorted k v o).
Proof.
  intros k v o H. induction H as [|[k' v'] r HS IH HF]; simpl.
  - constructor; constructor.
  - destruct (String.compare k k') eqn:E.
    + apply String.compare_eq_iff in E. subst k'. constructor; auto.
    + constructor; [constructor; auto|]. constructor; [exact E|].
      rewrite Forall_forall in *. intros e He. specialize (HF e He). unfold olt in *. cbn [fst] in *. eapply klt_trans; eauto.
    + constructor; auto. rewrite Forall_forall in *. intros e He. apply in_insert_sorted in He. destruct He as [He|He].
      * subst e. unfold olt. cbn [fst]. apply compare_gt_lt. exact E.
      * apply HF; exact He.
Qed.

Lemma insert_sorted_last : forall k v o, Forall (fun e => klt (fst e) k) o -> insert_sorted k v o = o ++ [(k, v)].
Proof.
  intros k v o H. induction H as [|[k' v'] r Hk _ IH]; simpl; auto.
  cbn [fst] in Hk. unfold klt in Hk. rewrite String.compare_antisym, Hk. cbn [CompOpp]. rewrite IH. reflexivity.
Qed.

Definition ins (acc : obj) (kv : string * json) : obj := insert_sorted (fst kv) (snd kv) acc.

Lemma fold_ins_sorted : forall o acc, sorted_obj acc -> sorted_obj (fold_left ins o acc).
Proof. induction o as [|[k v] r IH]; intros acc H; simpl; auto. apply IH. apply insert_sorted_sorted. exact H. Qed.

Lemma sort_dedupe_sorted : forall o, sorted_obj (sort_dedupe o).
Proof. intros o. unfold sort_dedupe. apply (fold_ins_sorted o []). constructor. Qed.

Lemma sorted_app_inv : forall a b, sorted_obj (a ++ b) -> sorted_obj b /\ forall x y, In x a -> In y b -> olt x y.
Proof.
  induction a as [|e r IH]; intros b H; simpl in *.
  - split; auto. intros x y [].
  - apply StronglySorted_inv in H. destruct H as [HS HF]. destruct (IH _ HS) as [Sb Hab]. split; auto.
    intros x y [Hx|Hx] Hy.
    + subst x. rewrite Forall_forall in HF. apply HF. apply in_or_app. right; exact Hy.
    + apply Hab; assumption.
Qed.

Lemma fold_ins_sorted_id : forall o acc, sorted_obj (acc ++ o) -> fold_left ins o acc = acc ++ o.
Proof.
  induction o as [|[k v] r IH]; intros acc H; simpl.
  - rewrite app_nil_r. reflexivity.
  - unfold ins at 2. cbn [fst snd]. rewrite insert_sorted_last.
    + rewrite IH; rewrite <- app_assoc; [reflexivity|exact H].
    + apply Forall_forall. intros e He. destruct (sorted_app_inv _ _ H) as [_ Hab].
      apply (Hab e (k, v) He). left; reflexivity.
Qed.

Lemma sort_dedupe_id : forall o, sorted_obj o -> sort_dedupe o = o.
Proof. intros o H. unfold sort_dedupe. apply (fold_ins_sorted_id o []). exact H. Qed.

Lemma in_fold_ins : forall o acc e, In e (fold_left ins o acc) -> In e acc \/ In e o.
Proof.
  induction o as [|[k v] r IH]; intros acc e H; simpl in *; auto.
  apply IH in H. destruct H as [H|H]; auto. unfold ins in H. cbn [fst snd] in H. apply in_insert_sorted in H.
  destruct H as [H|H]; auto.
Qed.

Lemma in_sort_dedupe : forall o e, In e (sort_dedupe o) -> In e o.
Proof. intros o e H. unfold sort_dedupe in H. apply in_fold_ins in H. destruct H as [[]|H]; exact H. Qed.

(** ** canon is idempotent *)
Definition cf (kv : string * json) : string * json := (fst kv, canon (snd kv)).

Lemma canon_obj_unfold : forall l, canon (JObj l) = JObj (sort_dedupe (map cf l)).
Proof. reflexivity. Qed.

Theorem canon_idem : forall j, canon (canon j) = canon j.
Proof.
  apply json_ind'; try reflexivity.
  - intros l H. cbn [canon]. f_equal. rewrite map_map. apply map_ext_in. intros x Hx.
    rewrite Forall_forall in H. apply H. exact Hx.
  - intros l H. rewrite !canon_obj_unfold. f_equal.
    assert (E : map cf (sort_dedupe (map cf l)) = sort_dedupe (map cf l)).
    { rewrite <- (map_id (sort_dedupe (map cf l))) at 2. apply map_ext_in. intros [k v] He.
      apply in_sort_dedupe in He. apply in_map_iff in He. destruct He as [[k0 v0] [E0 H0]].
      unfold cf in E0. cbn [fst snd] in E0. inversion E0; subst. unfold cf. cbn [fst snd]. f_equal.
      rewrite Forall_forall in H. apply (H (k, v0) H0). }
    rewrite E. apply sort_dedupe_id. apply sort_dedupe_sorted.
Qed.

Lemma canon_obj_eq : forall w, canon_obj w = sort_dedupe (map cf w).
Proof. reflexivity. Qed.

Lemma canon_obj_idem : forall w, canon_obj (canon_obj w) = canon_obj w.
Proof.
  intros w. rewrite !canon_obj_eq.
  assert (H := canon_idem (JObj w)). rewrite !canon_obj_unfold in H. injection H as H1. exact H1.
Qed.

(** ** lookups in a canonical object *)
Lemma lookup_last_insert_sorted : forall k k' v o, sorted_obj o ->
  lookup_last k (insert_sorted k' v o) = if String.eqb k k' then Some v else lookup_last k o.
Proof.
  intros k k' v o H. induction H as [|[k0 v0] r HS IH HF]; simpl.
  - destruct (String.eqb k k'); reflexivity.
  - assert (HR : forall kk, Forall (fun e => klt kk (fst e)) r -> String.eqb k kk = true -> lookup_last k r = None).
    { intros kk HK E. apply String.eqb_eq in E. subst kk. clear IH HS HF. induction r as [|[k1 v1] r1 IH1]; auto.
      apply Forall_cons_iff in HK. destruct HK as [HK1 HK2]. cbn [fst] in HK1. simpl. rewrite (IH1 HK2).
      rewrite (klt_neq _ _ HK1). reflexivity. }
    destruct (String.compare k' k0) eqn:E.
    + apply String.compare_eq_iff in E. subst k0. simpl.
      destruct (String.eqb k k') eqn:E1.
      * rewrite (HR k' HF E1). reflexivity.
      * destruct (lookup_last k r); reflexivity.
    + simpl. destruct (String.eqb k k') eqn:E1.
      * assert (HF' : Forall (fun e : string * json => klt k' (fst e)) r).
        { rewrite Forall_forall in *. intros e He. specialize (HF e He). unfold olt in HF. cbn [fst] in HF. eapply klt_trans; eauto. }
        rewrite (HR k' HF' E1).
        apply String.eqb_eq in E1. subst k'. rewrite (klt_neq _ _ E). reflexivity.
      * destruct (lookup_last k r); [reflexivity|]. destruct (String.eqb k k0); reflexivity.
    + simpl. rewrite IH. destruct (String.eqb k k') eqn:E1; [reflexivity|].
      destruct (lookup_last k r); reflexivity.
Qed.

Lemma lookup_last_fold_ins : forall k o acc, sorted_obj acc ->
  lookup_last k (fold_left ins o acc) = match lookup_last k o with Some v => Some v | None => lookup_last k acc end.
Proof.
  intros k o. induction o as [|[k' v] r IH]; intros acc H; simpl.
  - reflexivity.
  - rewrite IH by (apply insert_sorted_sorted; exact H).
    destruct (lookup_last k r); [reflexivity|]. unfold ins. cbn [fst snd].
    rewrite lookup_last_insert_sorted by exact H. destruct (String.eqb k k'); reflexivity.
Qed.

Lemma lookup_last_sort_dedupe : forall k o, lookup_last k (sort_dedupe o) = lookup_last k o.
Proof.
  intros k o. unfold sort_dedupe. rewrite lookup_last_fold_ins by constructor.
  destruct (lookup_last k o); reflexivity.
Qed.

Lemma lookup_last_map_cf : forall k o, lookup_last k (map cf o) = option_map canon (lookup_last k o).
Proof.
  intros k o. induction o as [|[k' v] r IH]; simpl; auto.
  rewrite IH. destruct (lookup_last k r); simpl; auto. destruct (String.eqb k k'); reflexivity.
Qed.

Lemma lookup_last_canon_obj : forall k w, lookup_last k (canon_obj w) = option_map canon (lookup_last k w).
Proof.
  intros k w. rewrite canon_obj_eq, lookup_last_sort_dedupe. apply lookup_last_map_cf.
Qed.

Lemma projjson_ok_canon : forall w, projjson_ok (canon_obj w) = projjson_ok w.
Proof.
  intros w. unfold projjson_ok. rewrite lookup_last_canon_obj.
  destruct (lookup_last "id" w) as [[| | | |l|i]|]; try reflexivity.
  cbn [option_map]. rewrite canon_obj_unfold. rewrite !lookup_last_sort_dedupe, !lookup_last_map_cf.
  destruct (lookup_last "authority" i) as [[| | | | |]|]; destruct (lookup_last "code" i) as [[| | | | |]|]; reflexivity.
Qed.

(** ** finiteness of numbers is kept by canon *)
Lemma nums_finite_canon : forall j, nums_finite j = true -> nums_finite (canon j) = true.
Proof.
  apply (json_ind' (fun j => nums_finite j = true -> nums_finite (canon j) = true)); try (intros; assumption).
  - intros l H HF. cbn [canon nums_finite] in *. rewrite forallb_forall in *. intros x Hx.
    apply in_map_iff in Hx. destruct Hx as [y [E Hy]]. subst x. rewrite Forall_forall in H. apply H; auto.
  - intros l H HF. rewrite canon_obj_unfold. cbn [nums_finite] in *. rewrite forallb_forall in *. intros [k v] Hx.
    apply in_sort_dedupe in Hx. apply in_map_iff in Hx. destruct Hx as [[k0 v0] [E Hy]].
    unfold cf in E. cbn [fst snd] in *. inversion E; subst. rewrite Forall_forall in H. apply (H (k, v0) Hy). apply (HF (k, v0) Hy).
Qed.

Lemma nums_finite_canon_obj : forall w, nums_finite (JObj w) = true -> nums_finite (JObj (canon_obj w)) = true.
Proof.
  intros w H. apply nums_finite_canon in H. rewrite canon_obj_unfold in H. rewrite canon_obj_eq. exact H.
Qed.

Lemma lookup_last_in : forall k o v, lookup_last k o = Some v -> In (k, v) o.
Proof.
  intros k o v. induction o as [|[k' v'] r IH]; simpl; [discriminate|].
  destruct (lookup_last k r) eqn:E.
  - intro H. inversion H; subst. right. apply IH. reflexivity.
  - destruct (String.eqb k k') eqn:E1; [|discriminate]. intro H. inversion H; subst. apply String.eqb_eq in E1. subst. left; reflexivity.
Qed.

Lemma nums_finite_member : forall k o v, nums_finite (JObj o) = true -> lookup_last k o = Some v -> nums_finite v = true.
Proof.
  intros k o v H L. apply lookup_last_in in L. cbn [nums_finite] in H. rewrite forallb_forall in H. apply (H (k, v) L).
Qed.
