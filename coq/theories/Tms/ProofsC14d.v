(** * C14 — regression for F22 (repaired in /repo, branch fix-quadtree): a quadtree tile matrix set starts with tile matrix 0.

    IsQuadTree checked that the ids of consecutive tile matrices differ by one but not that the first one is 0.
    NetherlandsRDNewQuad with every id lowered by one (ids -1 .. 15: tile matrix 0 is then the 2x2 one) was accepted by
    the validation for the requests [0] and [5], and its pixel size for tile matrix z was cellSize(z) / 8, not / 16. *)
From Coq Require Import ZArith QArith String List Bool Lia.
From Texel Require Import Tms.Json Tms.Model Tms.GoTms Tms.ProofsC14.
From Texel.Gen Require Import ConstsGen TmsData QuadTreeGen.
Import ListNotations.
Open Scope Z_scope.

(** the reading of the code BEFORE the repair (for the example only: it is not a model of the code as it stands):
    [iqt_loop] without the test of the first id *)
Fixpoint iqt_loop_before_F22 (prev : option (Z * tileMatrix)) (l : list (Z * tileMatrix)) : verdict :=
  match l with
  | [] => Accept
  | (k, m) :: r =>
      match check_single k m with
      | Some c => Reject c
      | None =>
          match prev with
          | None => iqt_loop_before_F22 (Some (k, m)) r
          | Some (pk, pm) =>
              match check_pair pk pm k m with
              | Accept => iqt_loop_before_F22 (Some (k, m)) r
              | v => v
              end
          end
      end
  end.

Definition isQuadTree_before_F22 (t : tms) : verdict := iqt_loop_before_F22 None (sorted_matrices t).

Definition validate_before_F22 (t : tms) (ids : list Z) : verdict :=
  match isQuadTree_before_F22 t with
  | Accept =>
      match ids with
      | [] => Reject 12
      | _ => if ids_exist t ids then
               match max_list ids with None => VPanic | Some d => deviationVerdict t d end
             else Reject 13
      end
  | v => v
  end.

(** the shifted NetherlandsRDNewQuad is rejected by the model, by the regenerated IsQuadTree and by the validation,
    with the error "tile matrix IDs should be a range with step 1 starting with 0" (number 4) *)
Lemma regression_F22_lemma : exists t,
  decodeTMS gen_doc_NetherlandsRDNewQuad = Ok t /\
  validate t [0] = Accept /\ validate t [5] = Accept /\
  map fst (sorted_matrices (shift_ids t (-1))) = [-1; 0; 1; 2; 3; 4; 5; 6; 7; 8; 9; 10; 11; 12; 13; 14; 15] /\
  isQuadTree (shift_ids t (-1)) = Reject 4 /\
  gen_isQuadTree (shift_ids t (-1)) = Reject 4 /\
  validate (shift_ids t (-1)) [0] = Reject 4 /\ validate (shift_ids t (-1)) [5] = Reject 4 /\
  nth_error gen_quadtree_checks 4 = Some "tile matrix IDs should be a range with step 1 starting with 0"%string /\
  (forall s, s <> 0 -> rejected (validate (shift_ids t s) [0])).
Proof.
  eexists. split; [vm_compute; reflexivity|].
  split; [vm_compute; reflexivity|]. split; [vm_compute; reflexivity|].
  split; [vm_compute; reflexivity|]. split; [vm_compute; reflexivity|].
  split; [vm_compute; reflexivity|]. split; [vm_compute; reflexivity|].
  split; [vm_compute; reflexivity|]. split; [reflexivity|].
  intros s Hs. apply validate_of_rejected_quad. apply shift_rejected.
  - vm_compute; reflexivity.
  - vm_compute; discriminate.
  - exact Hs.
Qed.

(** with the reading before the repair the same set was accepted: its tile matrix 0 is 2x2 and the pixel size for
    tile matrix 0 is its cell size / 8 *)
Lemma before_F22_lemma : exists t m0 p,
  decodeTMS gen_doc_NetherlandsRDNewQuad = Ok t /\
  validate_before_F22 (shift_ids t (-1)) [0] = Accept /\ validate_before_F22 (shift_ids t (-1)) [5] = Accept /\
  find_tm 0 (t_matrices (shift_ids t (-1))) = Some m0 /\
  tm_matrixWidth m0 = 2 /\ tm_matrixHeight m0 = 2 /\
  pixelSize (shift_ids t (-1)) 0 = Some p /\
  (p == dq (tm_cellSize m0) / inject_Z 8)%Q /\ ~ (p == dq (tm_cellSize m0) / inject_Z 16)%Q.
Proof.
  eexists. eexists. eexists. split; [vm_compute; reflexivity|].
  split; [vm_compute; reflexivity|]. split; [vm_compute; reflexivity|].
  split; [vm_compute; reflexivity|]. split; [vm_compute; reflexivity|]. split; [vm_compute; reflexivity|].
  split; [vm_compute; reflexivity|].
  split; [vm_compute; reflexivity|]. vm_compute. discriminate.
Qed.
