(* GENERATED placeholder *)
