gen/MortonGen.vo gen/MortonGen.glob gen/MortonGen.v.beautified gen/MortonGen.required_vo: gen/MortonGen.v theories/Bits/Bexpr.vo
gen/MortonGen.vio: gen/MortonGen.v theories/Bits/Bexpr.vio
gen/MortonGen.vos gen/MortonGen.vok gen/MortonGen.required_vos: gen/MortonGen.v theories/Bits/Bexpr.vos
gen/ConstsGen.vo gen/ConstsGen.glob gen/ConstsGen.v.beautified gen/ConstsGen.required_vo: gen/ConstsGen.v 
gen/ConstsGen.vio: gen/ConstsGen.v 
gen/ConstsGen.vos gen/ConstsGen.vok gen/ConstsGen.required_vos: gen/ConstsGen.v 
theories/Bits/Bexpr.vo theories/Bits/Bexpr.glob theories/Bits/Bexpr.v.beautified theories/Bits/Bexpr.required_vo: theories/Bits/Bexpr.v 
theories/Bits/Bexpr.vio: theories/Bits/Bexpr.v 
theories/Bits/Bexpr.vos theories/Bits/Bexpr.vok theories/Bits/Bexpr.required_vos: theories/Bits/Bexpr.v 
theories/Bits/MortonSpec.vo theories/Bits/MortonSpec.glob theories/Bits/MortonSpec.v.beautified theories/Bits/MortonSpec.required_vo: theories/Bits/MortonSpec.v 
theories/Bits/MortonSpec.vio: theories/Bits/MortonSpec.v 
theories/Bits/MortonSpec.vos theories/Bits/MortonSpec.vok theories/Bits/MortonSpec.required_vos: theories/Bits/MortonSpec.v 
theories/Bits/Morton.vo theories/Bits/Morton.glob theories/Bits/Morton.v.beautified theories/Bits/Morton.required_vo: theories/Bits/Morton.v theories/Bits/Bexpr.vo gen/MortonGen.vo
theories/Bits/Morton.vio: theories/Bits/Morton.v theories/Bits/Bexpr.vio gen/MortonGen.vio
theories/Bits/Morton.vos theories/Bits/Morton.vok theories/Bits/Morton.required_vos: theories/Bits/Morton.v theories/Bits/Bexpr.vos gen/MortonGen.vos
theories/Bits/MortonProofs.vo theories/Bits/MortonProofs.glob theories/Bits/MortonProofs.v.beautified theories/Bits/MortonProofs.required_vo: theories/Bits/MortonProofs.v theories/Bits/Bexpr.vo theories/Bits/MortonSpec.vo theories/Bits/Morton.vo gen/MortonGen.vo
theories/Bits/MortonProofs.vio: theories/Bits/MortonProofs.v theories/Bits/Bexpr.vio theories/Bits/MortonSpec.vio theories/Bits/Morton.vio gen/MortonGen.vio
theories/Bits/MortonProofs.vos theories/Bits/MortonProofs.vok theories/Bits/MortonProofs.required_vos: theories/Bits/MortonProofs.v theories/Bits/Bexpr.vos theories/Bits/MortonSpec.vos theories/Bits/Morton.vos gen/MortonGen.vos
