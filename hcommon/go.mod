module verif/hcommon

go 1.21
