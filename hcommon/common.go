// Package hc is the shared part of the /verif Go harnesses (tie H): run context, summary,
// Coq case-file writer, Coq term printers.
package hc

import (
	"encoding/json"
	"fmt"
	"math/big"
	"math/rand"
	"os"
	"path/filepath"
	"sort"
	"strings"
)

// Violation is a failure of the property oracle on the implementation (a concrete failing input).
type Violation struct {
	What         string `json:"what"`
	KnownFinding string `json:"known_finding,omitempty"`
	Input        any    `json:"input"`
	Observed     any    `json:"observed,omitempty"`
	Expected     any    `json:"expected,omitempty"`
}

// Summary is what bin/check reads back (cases/<id>/summary.json).
type Summary struct {
	Evaluations        int            `json:"evaluations"`
	DistinctNontrivial int            `json:"distinct_nontrivial"`
	Rule               string         `json:"rule"`
	Samples            []any          `json:"samples"`
	Distribution       map[string]any `json:"distribution"`
	Violations         []Violation    `json:"violations"`
	Shards             []string       `json:"shards"`
	CorrModuleFile     string         `json:"corr_module_file"`
	CorrCases          int            `json:"corr_cases"`
	Oracle             string         `json:"oracle"`
	Partial            string         `json:"partial"`
	TrustedBase        []string       `json:"trusted_base"`
	Assumptions        []string       `json:"assumptions"`
	Search             string         `json:"search"`
	Exhaustive         string         `json:"exhaustive,omitempty"`
}

// Ctx is the per-run context handed to a property harness.
type Ctx struct {
	ID     string
	Tier   string
	Seed   int64
	Out    string
	Verif  string
	Repo   string
	Search bool
	Replay string
	Rng    *rand.Rand
	Sum    Summary

	shardCases [][]string
	shardJSON  []map[string]any
	curTerms   []string
	curJSON    map[string]any
	perShard   int
	corrImport string
	caseType   string
	distinct   map[string]bool
	perKind    map[string]int
	dist       map[string]int
}

func NewCtx(id string) *Ctx {
	return &Ctx{ID: id, distinct: map[string]bool{}, dist: map[string]int{}, perShard: 400}
}

func (c *Ctx) Quick() bool { return c.Tier != "thorough" }

// N returns q for the quick tier and t for the thorough tier.
func (c *Ctx) N(q, t int) int {
	if c.Quick() {
		return q
	}
	return t
}

// Count increments a named bucket of the input distribution.
func (c *Ctx) Count(bucket string) { c.dist[bucket]++ }

// Nontrivial records a distinct non-trivial case by key.
func (c *Ctx) Nontrivial(key string) { c.distinct[key] = true }

func (c *Ctx) Sample(v any) {
	if len(c.Sum.Samples) < 6 {
		c.Sum.Samples = append(c.Sum.Samples, v)
	}
}

func (c *Ctx) Violate(v Violation) {
	if v.KnownFinding != "" {
		// one representative per known finding, never crowding out new violations
		for _, o := range c.Sum.Violations {
			if o.KnownFinding == v.KnownFinding {
				return
			}
		}
		c.Sum.Violations = append(c.Sum.Violations, v)
		return
	}
	n := 0
	for _, o := range c.Sum.Violations {
		if o.KnownFinding == "" {
			n++
		}
	}
	if n < 50 {
		c.Sum.Violations = append(c.Sum.Violations, v)
	}
	if n < 3 && c.Out != "" {
		// kept on disk at once: if the implementation later takes the whole process down (fatal runtime error, e.g.
		// concurrent map writes), the failing input found so far is still reported
		_ = WriteJSON(filepath.Join(c.Out, "violations_partial.json"), c.Sum.Violations)
	}
}

// CorrInit declares the Coq module (e.g. "Texel.Corr.C17") whose `mismatches` evaluates the cases.
func (c *Ctx) CorrInit(importPath, file string, perShard int) {
	c.corrImport = importPath
	c.Sum.CorrModuleFile = file
	if perShard > 0 {
		c.perShard = perShard
	}
	c.curJSON = map[string]any{}
}

// Case adds one correspondence case: a Coq term of the module's `case` type, and its JSON description.
func (c *Ctx) Case(term string, desc any) {
	// thorough tier: the oracle sees every case, the Coq correspondence a capped unbiased prefix per case kind
	if c.Tier == "thorough" {
		kind := term
		if i := strings.IndexAny(term, " ("); i > 0 {
			kind = term[:i]
		}
		if c.perKind == nil {
			c.perKind = map[string]int{}
		}
		c.perKind[kind]++
		if c.perKind[kind] > 8000 {
			return
		}
	}
	c.curJSON[fmt.Sprint(len(c.curTerms))] = desc
	c.curTerms = append(c.curTerms, term)
	c.Sum.CorrCases++
	if len(c.curTerms) >= c.perShard {
		c.flushShard()
	}
}

func (c *Ctx) flushShard() {
	if len(c.curTerms) == 0 {
		return
	}
	c.shardCases = append(c.shardCases, c.curTerms)
	c.shardJSON = append(c.shardJSON, c.curJSON)
	c.curTerms = nil
	c.curJSON = map[string]any{}
}

// Finish writes shards, cases.json and summary.json.
func (c *Ctx) Finish() error {
	c.flushShard()
	index := map[string]any{}
	for k, terms := range c.shardCases {
		name := fmt.Sprintf("%s_%d.v", c.ID, k)
		var b strings.Builder
		fmt.Fprintf(&b, "(* written by /verif/harness: inputs and the outputs OBSERVED on the implementation *)\n")
		fmt.Fprintf(&b, "From Coq Require Import ZArith NArith List String.\nFrom Texel Require Import Prelude.Corr.\nRequire Import %s.\nImport ListNotations.\nOpen Scope Z_scope.\n", c.corrImport)
		fmt.Fprintf(&b, "Definition cases : list case := [\n")
		for i, t := range terms {
			sep := ";"
			if i == len(terms)-1 {
				sep = ""
			}
			fmt.Fprintf(&b, "  %s%s\n", t, sep)
		}
		fmt.Fprintf(&b, "].\nDefinition M := Eval vm_compute in mismatches cases.\nPrint M.\n")
		if err := os.WriteFile(filepath.Join(c.Out, name), []byte(b.String()), 0o644); err != nil {
			return err
		}
		c.Sum.Shards = append(c.Sum.Shards, name)
		index[name] = c.shardJSON[k]
	}
	if err := WriteJSON(filepath.Join(c.Out, "cases.json"), index); err != nil {
		return err
	}
	c.Sum.DistinctNontrivial = len(c.distinct)
	if c.Sum.Distribution == nil {
		c.Sum.Distribution = map[string]any{}
	}
	keys := make([]string, 0, len(c.dist))
	for k := range c.dist {
		keys = append(keys, k)
	}
	sort.Strings(keys)
	for _, k := range keys {
		c.Sum.Distribution[k] = c.dist[k]
	}
	if c.Sum.Violations == nil {
		c.Sum.Violations = []Violation{}
	}
	if c.Sum.Samples == nil {
		c.Sum.Samples = []any{}
	}
	return WriteJSON(filepath.Join(c.Out, "summary.json"), c.Sum)
}

func WriteJSON(path string, v any) error {
	b, err := json.MarshalIndent(v, "", " ")
	if err != nil {
		return err
	}
	return os.WriteFile(path, append(b, '\n'), 0o644)
}

// ---- Coq term printers -------------------------------------------------------------------------

func CoqZ(i int64) string {
	if i < 0 {
		return fmt.Sprintf("(%d)", i)
	}
	return fmt.Sprintf("%d", i)
}

func CoqBigZ(i *big.Int) string {
	if i.Sign() < 0 {
		return "(" + i.String() + ")"
	}
	return i.String()
}

func CoqN(u uint64) string { return fmt.Sprintf("%d%%N", u) }

func CoqBool(b bool) string {
	if b {
		return "true"
	}
	return "false"
}

func CoqList(items []string) string { return "[" + strings.Join(items, "; ") + "]" }

func CoqPt(p [2]int64) string { return fmt.Sprintf("(%s, %s)", CoqZ(p[0]), CoqZ(p[1])) }

func CoqPts(ps [][2]int64) string {
	s := make([]string, len(ps))
	for i, p := range ps {
		s[i] = CoqPt(p)
	}
	return CoqList(s)
}

func CoqRings(rs [][][2]int64) string {
	s := make([]string, len(rs))
	for i, r := range rs {
		s[i] = CoqPts(r)
	}
	return CoqList(s)
}

func CoqPolys(ps [][][][2]int64) string {
	s := make([]string, len(ps))
	for i, p := range ps {
		s[i] = CoqRings(p)
	}
	return CoqList(s)
}
