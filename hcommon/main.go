package hc

import (
	"flag"
	"fmt"
	"math/rand"
	"os"
)

// PropFunc runs the harness of one property.
type PropFunc func(c *Ctx) error

// Main dispatches `harness <Cxx> -tier quick|thorough -seed N -out dir [-search] [-replay f]`.
func Main(props map[string]PropFunc) {
	if len(os.Args) < 2 {
		fmt.Fprintln(os.Stderr, "usage: harness <Cxx> -tier quick|thorough -seed N -out dir")
		os.Exit(2)
	}
	id := os.Args[1]
	fs := flag.NewFlagSet("harness", flag.ExitOnError)
	tier := fs.String("tier", "quick", "")
	seed := fs.Int64("seed", 1, "")
	out := fs.String("out", "", "")
	verif := fs.String("verif", "/verif", "")
	repo := fs.String("repo", "/repo", "")
	search := fs.Bool("search", false, "widen the oracle-only search (a proof obligation or correspondence is broken)")
	replay := fs.String("replay", "", "")
	_ = fs.Parse(os.Args[2:])
	f, ok := props[id]
	if !ok {
		fmt.Fprintf(os.Stderr, "harness: no such property %s\n", id)
		os.Exit(2)
	}
	c := NewCtx(id)
	c.Tier, c.Seed, c.Out, c.Verif, c.Repo, c.Search, c.Replay = *tier, *seed, *out, *verif, *repo, *search, *replay
	c.Rng = rand.New(rand.NewSource(*seed))
	if err := os.MkdirAll(c.Out, 0o755); err != nil {
		fmt.Fprintln(os.Stderr, err)
		os.Exit(2)
	}
	if err := f(c); err != nil {
		fmt.Fprintln(os.Stderr, "harness:", err)
		os.Exit(3)
	}
	if err := c.Finish(); err != nil {
		fmt.Fprintln(os.Stderr, "harness:", err)
		os.Exit(3)
	}
}
